#!/usr/bin/env python3
"""Copies the validated seeded changes from the sub-agents' output area into /verif/seeded/<id>/ and writes meta.json
(which property, what the change needs in order to manifest, what was run to confirm it, which checks detect it)."""
import json, os, shutil, sys, glob
SRCS = ["/tmp/seed/out", "/tmp/seed/out2", "/tmp/seed/out3", "/tmp/seed/out4"]
DST = "/verif/seeded"
os.makedirs(DST, exist_ok=True)
for d in sorted(sum([glob.glob(S + "/C??/[abcdef]") for S in SRCS], [])):
    prop, x = d.split("/")[-2:]
    rp = os.path.join(d, "result.json")
    if not os.path.exists(rp) or not os.path.exists(os.path.join(d, "patch.diff")):
        continue
    res = json.load(open(rp))
    sid = prop + x
    out = os.path.join(DST, sid)
    # results of several runs accumulate in history.json kept next to the seed
    hist_p = os.path.join(d, "history.json")
    hist = json.load(open(hist_p)) if os.path.exists(hist_p) else []
    # drop exact duplicates (an older result file appended again behind a newer one), keeping the first occurrence
    dd = []
    for h in hist:
        if h not in dd:
            dd.append(h)
    hist = dd
    if res not in hist:
        hist.append(res)
    json.dump(hist, open(hist_p, "w"), indent=1)
    fin = os.path.join(DST, prop + x, "result.json")
    if os.path.exists(fin):
        fr = json.load(open(fin))
        if fr not in hist:
            hist.append(fr)
            json.dump(hist, open(hist_p, "w"), indent=1)
    valid = None
    for h in hist:
        if "valid" in h and "demo_patched" in h:
            valid = h
    if valid is None or not valid.get("valid"):
        print(sid, "not validated (skipped)", valid and valid.get("valid"))
        continue
    keep = None
    if os.path.exists(os.path.join(out, "result.json")):
        keep = open(os.path.join(out, "result.json")).read()
    if os.path.isdir(out):
        shutil.rmtree(out)
    os.makedirs(out)
    if keep is not None:
        open(os.path.join(out, "result.json"), "w").write(keep)
    shutil.copy(os.path.join(d, "patch.diff"), out)
    shutil.copytree(os.path.join(d, "demo"), os.path.join(out, "demo"))
    shutil.copy(os.path.join(d, "demo_cmd.txt"), out)
    am = json.load(open(os.path.join(d, "meta.json")))
    det = {}
    dh = []
    for h in hist:
        for p, c in h.get("checks", {}).items():
            det[p] = {"tier": h.get("tier"), "exit": c["rc"], "seconds": c["s"], "violations": c["violations"][:4]}
        if h.get("checks"):
            dh.append({"run": len(dh) + 1, "detected_by": sorted(h.get("detected_by", []))})
    # round-2 seeds whose sub-agent report I had read - and extended a harness because of - before the registered
    # checks were first run against them: their first run does not count as "caught at once"
    PRE = {"C04c": "goodbye messages during shutdown (tree harness mode 3)", "C09c": "event-valued undeliverable messages",
           "C18d": "host change under the same member ID", "C20d": "two members on one address",
           "C08c": "tree harness mode 4 (parent restarted)", "C08d": "tree harness mode 4 (app context)",
           "C06d": "tree harness mode 5 (budget exhausted with children)", "C11c": "concurrent-requests harness",
           "C13c": "second actor configured with another chain", "C12d": "remote subscriber order",
           "C10c": "started replacement must be registered", "C02c": "Started panics during spawn",
           "C17c": "sender that is also a target", "C19c": "Deactivate of an inactive PID", "C19d": "prefix-related kind names",
           "C11d": "native replay of select-with-default (the check found it, the replay could not confirm it)",
           "C03d": "builtin clear() was unsupported by the executor", "C05c": "re-run: the first run's native replay was broken by a concurrent edit of /verif",
           "C15f": "the production serializer was brought inside the claim while the round ran (whole-method model of ProtoSerializer before); the patch was rebased onto the repaired tree f396a6b, which touches the adjacent lines"}
    meta = {
        "id": sid,
        "property": am.get("property", prop),
        "summary": am.get("summary"),
        "needs_to_manifest": am.get("needs"),
        "why_existing_tests_pass": am.get("why_tests_pass"),
        "origin": "written by a fresh sub-agent that was given only the property text and a scratch worktree of /repo",
        "confirmed_by_me": {
            "how": "seedcheck.py in a scratch git worktree of /repo (removed afterwards): demo passes unpatched, patch applies and builds, demo fails patched, the repository's suite passes patched (package by package in a private network namespace; the timing-dependent cluster package is retried up to 4 times)",
            "demo_cmd": open(os.path.join(d, "demo_cmd.txt")).read().strip(),
            "demo_unpatched_exit": valid["demo_unpatched"]["rc"],
            "demo_patched_exit": valid["demo_patched"]["rc"],
            "suite_patched": [{"pkg": s["pkg"], "runs": len(s["runs"]), "passed": s["passed"]} for s in valid.get("suite_patched", [])],
        },
        "repo_commits_it_was_run_against": sorted(set(h.get("repo_commit", "760753d") for h in hist)),
        "checks_run_against_it": det,
        "detection_history": dh,
        "strengthened_before_first_run": PRE.get(sid),
        "detected_by": sorted(p for p, c in det.items() if c["exit"] == 1 and c["violations"]),
    }
    json.dump(meta, open(os.path.join(out, "meta.json"), "w"), indent=1)
    print(sid, "kept; detected by", meta["detected_by"])
