#!/usr/bin/env python3
"""Regenerates the generated blocks of DESIGN.md (seed table) from /verif/seeded/*/meta.json."""
import re, subprocess
p = "/verif/DESIGN.md"
s = open(p).read()
tbl = subprocess.run(["python3", "/verif/seed_table.py"], capture_output=True, text=True).stdout.strip()
s = re.sub(r"<!-- SEED_TABLE_BEGIN -->.*?<!-- SEED_TABLE_END -->", "<!-- SEED_TABLE_BEGIN -->\n" + tbl.replace("\\", "\\\\") + "\n<!-- SEED_TABLE_END -->", s, flags=re.S)
open(p, "w").write(s)
print("seed table rows:", tbl.count("\n") - 1)
