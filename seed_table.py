#!/usr/bin/env python3
"""Prints the markdown table of /verif/seeded/*/meta.json for DESIGN.md section 14.7."""
import json, glob, os
rows = []
stats = {}
for mp in sorted(glob.glob("/verif/seeded/*/meta.json")):
    m = json.load(open(mp))
    hist = m.get("detection_history", [])
    first = hist[0]["detected_by"] if hist else m.get("detected_by", [])
    now = m.get("detected_by", [])
    summ = (m.get("summary") or "").replace("|", "/").replace("\n", " ")
    if len(summ) > 150:
        summ = summ[:147] + "..."
    st = "caught at once" if first else ("caught after strengthening" if now else "**missed**")
    if m.get("strengthened_before_first_run") and now:
        st = "caught after strengthening (" + m["strengthened_before_first_run"] + ")"
    rnd = {"a": 1, "b": 1, "c": 2, "d": 2, "e": 3, "f": 4}[m["id"][-1]]
    k = "at once" if st == "caught at once" else ("missed" if st == "**missed**" else "after strengthening")
    stats.setdefault(rnd, {"at once": 0, "after strengthening": 0, "missed": 0})[k] += 1
    rows.append(f"| {m['id']} | {m['property']} | {summ} | {', '.join(now) or '-'} | {st} |")
print("| seed | property | change | caught by | status |\n|---|---|---|---|---|")
print("\n".join(rows))
print()
for rnd in sorted(stats):
    t = stats[rnd]
    print(f"Round {rnd}: {sum(t.values())} changes kept - {t['at once']} caught at once, {t['after strengthening']} after strengthening, {t['missed']} missed.")
