#!/bin/sh
# Runs the registered quick check of each kept seed's own property (plus the cross-property checks listed below)
# against every change under /verif/seeded, in scratch worktrees, and prints one line per seed.
# usage: reseed_all.sh [seed-id ...]
cd /verif
ids="$@"
[ -z "$ids" ] && ids=$(ls seeded)
for id in $ids; do
  d=/verif/seeded/$id
  [ -f $d/patch.diff ] || continue
  prop=$(python3 -c "import json;print(json.load(open('$d/meta.json'))['property'])")
  props=$prop
  case $id in
    C01c) props=C01,C02;; C01d) props=C01,C05;; C07c) props=C07,C08;; C16d) props=C16;;
  esac
  python3 /verif/seedcheck.py $d --skip-validate --props $props > /tmp/seed/reseed-$id.log 2>&1
  python3 - $d <<'PY'
import sys,json
d=json.load(open(sys.argv[1]+'/result.json'))
print(sys.argv[1].split('/')[-1], 'detected=',d.get('detected_by'), {k:(v['rc'],v['s'],v['inconclusive'][:1]) for k,v in d.get('checks',{}).items()}, flush=True)
PY
done
echo ALLDONE
