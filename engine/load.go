package main

// Source view and loader. The view is rebuilt from /repo's working tree on
// every run: harness files are added in-package, the virtual packages zzrt and
// zzshim/* are added, and the import paths of sync, sync/atomic, time,
// math/rand and context in the repository's non-test files are replaced by
// the shim packages. No statement of the repository is rewritten for the
// symbolic view.

import (
	"bytes"
	"encoding/json"
	"fmt"
	"go/ast"
	"go/parser"
	"go/printer"
	"go/token"
	"go/types"
	"os"
	"path/filepath"
	"regexp"
	"sort"
	"strings"

	"golang.org/x/tools/go/packages"
	"golang.org/x/tools/go/ssa"
	"golang.org/x/tools/go/ssa/ssautil"
)

var (
	repoDir  = envOr("GOSYM_REPO", "/repo")
	verifDir = envOr("GOSYM_VERIF", "/verif")
	// outDir receives evidence/ and replays/; mutation runs against scratch copies set GOSYM_OUT so that the
	// committed evidence of /repo is never overwritten by them.
	outDir = envOr("GOSYM_OUT", verifDir)
)

func envOr(k, d string) string {
	if v := os.Getenv(k); v != "" {
		return v
	}
	return d
}

var repoPkgs = []string{"ringbuffer", "safemap", "actor", "remote", "cluster"}

var shimImports = map[string]string{
	"sync":        modPath + "/zzshim/sync",
	"sync/atomic": modPath + "/zzshim/atomic",
	"time":        modPath + "/zzshim/time",
	"math/rand":   modPath + "/zzshim/rand",
	"context":     modPath + "/zzshim/context",
}

// shimImportsByPkg: substitutions that apply to one repository package only. Package remote gets the contract
// transport instead of TCP / TLS / DRPC (cluster keeps the real net: it only uses net.SplitHostPort).
var shimImportsByPkg = map[string]map[string]string{
	"remote": {
		"net":                      modPath + "/zzshim/net",
		"crypto/tls":               modPath + "/zzshim/tls",
		"storj.io/drpc/drpcconn":   modPath + "/zzshim/drpcconn",
		"storj.io/drpc/drpcmux":    modPath + "/zzshim/drpcmux",
		"storj.io/drpc/drpcserver": modPath + "/zzshim/drpcserver",
	},
}

// View is a build overlay: virtual path -> content.
type View struct {
	Files     map[string][]byte
	Rewritten []string // repo files whose import paths were substituted
	Native    bool
}

func goEnv() []string {
	env := os.Environ()
	env = append(env, "GOFLAGS=-mod=mod", "GOPROXY=off", "GOSUMDB=off", "GOTOOLCHAIN=local", "GOWORK=off")
	return env
}

// markSites: functions whose entry is a zzrt.Mark scheduling point (message boundaries), in both views.
var markSites = map[string][]*regexp.Regexp{
	"actor": {regexp.MustCompile(`(?m)^func \(\w+ \*process\) invokeMsg\([^)]*\) \{\n`)},
}

var pkgClause = regexp.MustCompile(`(?m)^package \w+\n`)

func insertMarks(pk string, src []byte) []byte {
	out := src
	for _, re := range markSites[pk] {
		loc := re.FindIndex(out)
		if loc == nil {
			continue
		}
		out = append(append(append([]byte(nil), out[:loc[1]]...), []byte("\tzzrt.Mark()\n")...), out[loc[1]:]...)
	}
	if bytes.Equal(out, src) {
		return src
	}
	if !bytes.Contains(out, []byte(modPath+`/zzrt"`)) {
		loc := pkgClause.FindIndex(out)
		if loc == nil {
			return src
		}
		out = append(append(append([]byte(nil), out[:loc[1]]...), []byte("\nimport \""+modPath+"/zzrt\"\n")...), out[loc[1]:]...)
	}
	return out
}

// excludeFiles: harness files that do not compile against the tree under check (a changed internal signature);
// they are left out of both views so that the harnesses in the other files still run.
var excludeFiles = map[string]bool{}

var harnessFileInErr = regexp.MustCompile(`(/[^\s:]*/zz_\w+\.go):\d+`)

// loadIsolated builds the symbolic view and loads it; harness files with compile errors are dropped (and
// reported) and the load is repeated, so that one harness that depends on a changed internal does not take the
// other harnesses of its package down with it.
func loadIsolated(pkgs []string) (*View, *World, []string, error) {
	var dropped []string
	for round := 0; ; round++ {
		v, err := buildView(false, pkgs)
		if err != nil {
			return nil, nil, dropped, err
		}
		w, err := loadWorld(v, pkgs)
		if err == nil {
			return v, w, dropped, nil
		}
		be, ok := err.(*buildError)
		if !ok || round >= 6 {
			return v, nil, dropped, err
		}
		fresh := false
		for _, m := range harnessFileInErr.FindAllStringSubmatch(be.Error(), -1) {
			if !excludeFiles[m[1]] {
				excludeFiles[m[1]] = true
				dropped = append(dropped, m[1])
				fresh = true
			}
		}
		if !fresh {
			return v, nil, dropped, err
		}
	}
}

// buildView assembles the overlay. native=true additionally applies the
// cooperative-scheduling rewrites (go statements, channel operations).
func buildView(native bool, harnessPkgs []string) (*View, error) {
	v := &View{Files: map[string][]byte{}, Native: native}
	// 1. virtual packages
	rt := filepath.Join(verifDir, "rt")
	err := filepath.Walk(rt, func(p string, info os.FileInfo, err error) error {
		if err != nil || info.IsDir() || !strings.HasSuffix(p, ".go") {
			return err
		}
		rel, _ := filepath.Rel(rt, p)
		b, err := os.ReadFile(p)
		if err != nil {
			return err
		}
		base := filepath.Base(p)
		if strings.HasSuffix(base, "_native.go") && !native {
			return nil
		}
		if strings.HasSuffix(base, "_sym.go") && native {
			return nil
		}
		v.Files[filepath.Join(repoDir, rel)] = b
		return nil
	})
	if err != nil {
		return nil, err
	}
	// 2. harness files (a harness package also gets the exported helpers of
	// the harness files of the repository packages it builds on)
	harnessPkgs = withHarnessDeps(harnessPkgs)
	for _, pk := range harnessPkgs {
		dir := filepath.Join(verifDir, "harness", pk)
		ents, _ := os.ReadDir(dir)
		for _, en := range ents {
			if !strings.HasSuffix(en.Name(), ".go") || excludeFiles[filepath.Join(repoDir, pk, en.Name())] {
				continue
			}
			b, err := os.ReadFile(filepath.Join(dir, en.Name()))
			if err != nil {
				return nil, err
			}
			if native {
				b, err = rewriteNative(en.Name(), b)
				if err != nil {
					return nil, err
				}
			}
			v.Files[filepath.Join(repoDir, pk, en.Name())] = b
		}
	}
	// 3. import substitution in repository files
	for _, pk := range repoPkgs {
		dir := filepath.Join(repoDir, pk)
		ents, err := os.ReadDir(dir)
		if err != nil {
			continue
		}
		for _, en := range ents {
			n := en.Name()
			if !strings.HasSuffix(n, ".go") || strings.HasSuffix(n, "_test.go") || strings.HasPrefix(n, "zz_") {
				continue
			}
			p := filepath.Join(dir, n)
			src, err := os.ReadFile(p)
			if err != nil {
				return nil, err
			}
			out, changed, err := substituteImports(pk, n, src)
			if err != nil {
				return nil, fmt.Errorf("%s: %v", p, err)
			}
			if o1 := insertMarks(pk, out); !bytes.Equal(o1, out) {
				changed = true
				out = o1
			}
			if native {
				o2, err := rewriteNative(n, out)
				if err != nil {
					return nil, fmt.Errorf("%s: %v", p, err)
				}
				if !bytes.Equal(o2, out) {
					changed = true
					out = o2
				}
			}
			if changed {
				v.Files[p] = out
				v.Rewritten = append(v.Rewritten, filepath.Join(pk, n))
			}
		}
	}
	sort.Strings(v.Rewritten)
	return v, nil
}

var harnessDeps = map[string][]string{"remote": {"actor"}, "cluster": {"actor", "remote"}}

func withHarnessDeps(pkgs []string) []string {
	seen := map[string]bool{}
	var out []string
	var add func(p string)
	add = func(p string) {
		if seen[p] {
			return
		}
		seen[p] = true
		for _, d := range harnessDeps[p] {
			add(d)
		}
		out = append(out, p)
	}
	for _, p := range pkgs {
		add(p)
	}
	return out
}

// substituteImports replaces import path literals in place (line numbers are
// preserved).
func substituteImports(pkg, name string, src []byte) ([]byte, bool, error) {
	fset := token.NewFileSet()
	f, err := parser.ParseFile(fset, name, src, parser.ImportsOnly)
	if err != nil {
		return nil, false, err
	}
	type edit struct {
		off, end int
		repl     string
	}
	var edits []edit
	for _, im := range f.Imports {
		path := strings.Trim(im.Path.Value, "\"`")
		to, ok := shimImports[path]
		if t2, ok2 := shimImportsByPkg[pkg][path]; ok2 {
			to, ok = t2, true
		}
		if ok {
			edits = append(edits, edit{fset.Position(im.Path.Pos()).Offset, fset.Position(im.Path.End()).Offset, `"` + to + `"`})
		}
	}
	if len(edits) == 0 {
		return src, false, nil
	}
	sort.Slice(edits, func(i, j int) bool { return edits[i].off > edits[j].off })
	out := append([]byte(nil), src...)
	for _, ed := range edits {
		out = append(out[:ed.off], append([]byte(ed.repl), out[ed.end:]...)...)
	}
	return out, true, nil
}

// rewriteNative applies the mechanical rewrites needed by the cooperative
// native scheduler: `go f(args)` -> zzrt.Go(func(){ f(args) }), channel
// receive/send -> zzrt.Recv/Send, select over receives -> zzrt.SelectRecv.
// A file with a form it does not know is returned unchanged.
func rewriteNative(name string, src []byte) ([]byte, error) {
	if !bytes.Contains(src, []byte("go ")) && !bytes.Contains(src, []byte("<-")) && !bytes.Contains(src, []byte("select")) {
		return src, nil
	}
	fset := token.NewFileSet()
	f, err := parser.ParseFile(fset, name, src, parser.ParseComments)
	if err != nil {
		return nil, err
	}
	if f.Name.Name == "zzrt" {
		return src, nil
	}
	changed := false
	ok := true
	zz := func(fn string, args ...ast.Expr) *ast.CallExpr {
		return &ast.CallExpr{Fun: &ast.SelectorExpr{X: ast.NewIdent("zzrt"), Sel: ast.NewIdent(fn)}, Args: args}
	}
	// Second pass does the actual work with parent-aware replacement.
	var walkList func(list []ast.Stmt) []ast.Stmt
	var walkStmt func(s ast.Stmt) ast.Stmt
	var walkExprIn func(e ast.Expr) ast.Expr
	walkExprIn = func(e ast.Expr) ast.Expr {
		switch x := e.(type) {
		case *ast.UnaryExpr:
			x.X = walkExprIn(x.X)
			if x.Op == token.ARROW {
				changed = true
				return zz("Recv", x.X)
			}
		case *ast.CallExpr:
			x.Fun = walkExprIn(x.Fun)
			for i := range x.Args {
				x.Args[i] = walkExprIn(x.Args[i])
			}
		case *ast.ParenExpr:
			x.X = walkExprIn(x.X)
		case *ast.SelectorExpr:
			x.X = walkExprIn(x.X)
		case *ast.BinaryExpr:
			x.X, x.Y = walkExprIn(x.X), walkExprIn(x.Y)
		case *ast.FuncLit:
			x.Body.List = walkList(x.Body.List)
		case *ast.CompositeLit:
			for i := range x.Elts {
				x.Elts[i] = walkExprIn(x.Elts[i])
			}
		case *ast.KeyValueExpr:
			x.Value = walkExprIn(x.Value)
		case *ast.StarExpr:
			x.X = walkExprIn(x.X)
		case *ast.IndexExpr:
			x.X = walkExprIn(x.X)
			x.Index = walkExprIn(x.Index)
		case *ast.TypeAssertExpr:
			x.X = walkExprIn(x.X)
		}
		return e
	}
	walkStmt = func(s ast.Stmt) ast.Stmt {
		switch x := s.(type) {
		case *ast.GoStmt:
			changed = true
			x.Call.Fun = walkExprIn(x.Call.Fun)
			// arguments must be evaluated at the go statement: only
			// allow identifiers / selectors / literals there.
			for _, a := range x.Call.Args {
				switch a.(type) {
				case *ast.Ident, *ast.BasicLit, *ast.SelectorExpr:
				default:
					ok = false
				}
			}
			body := &ast.BlockStmt{List: []ast.Stmt{&ast.ExprStmt{X: x.Call}}}
			return &ast.ExprStmt{X: zz("Go", &ast.FuncLit{Type: &ast.FuncType{Params: &ast.FieldList{}}, Body: body})}
		case *ast.SendStmt:
			changed = true
			return &ast.ExprStmt{X: zz("Send", walkExprIn(x.Chan), walkExprIn(x.Value))}
		case *ast.ExprStmt:
			x.X = walkExprIn(x.X)
		case *ast.AssignStmt:
			if len(x.Lhs) == 2 && len(x.Rhs) == 1 {
				if u, isU := x.Rhs[0].(*ast.UnaryExpr); isU && u.Op == token.ARROW {
					changed = true
					x.Rhs[0] = zz("Recv2", walkExprIn(u.X))
					return x
				}
			}
			for i := range x.Rhs {
				x.Rhs[i] = walkExprIn(x.Rhs[i])
			}
		case *ast.ReturnStmt:
			for i := range x.Results {
				x.Results[i] = walkExprIn(x.Results[i])
			}
		case *ast.DeferStmt:
			x.Call.Fun = walkExprIn(x.Call.Fun)
			for i := range x.Call.Args {
				x.Call.Args[i] = walkExprIn(x.Call.Args[i])
			}
		case *ast.IfStmt:
			if x.Init != nil {
				x.Init = walkStmt(x.Init)
			}
			x.Cond = walkExprIn(x.Cond)
			x.Body.List = walkList(x.Body.List)
			if x.Else != nil {
				x.Else = walkStmt(x.Else)
			}
		case *ast.BlockStmt:
			x.List = walkList(x.List)
		case *ast.ForStmt:
			if x.Cond != nil {
				x.Cond = walkExprIn(x.Cond)
			}
			x.Body.List = walkList(x.Body.List)
		case *ast.RangeStmt:
			x.X = walkExprIn(x.X)
			x.Body.List = walkList(x.Body.List)
		case *ast.SwitchStmt:
			if x.Tag != nil {
				x.Tag = walkExprIn(x.Tag)
			}
			for _, c := range x.Body.List {
				cc := c.(*ast.CaseClause)
				cc.Body = walkList(cc.Body)
			}
		case *ast.TypeSwitchStmt:
			for _, c := range x.Body.List {
				cc := c.(*ast.CaseClause)
				cc.Body = walkList(cc.Body)
			}
		case *ast.LabeledStmt:
			x.Stmt = walkStmt(x.Stmt)
		case *ast.DeclStmt:
		case *ast.SelectStmt:
			// select { case [x :=] <-ch: body ... } with receive-only cases.
			changed = true
			var chans []ast.Expr
			sw := &ast.SwitchStmt{Body: &ast.BlockStmt{}}
			var defaultBody []ast.Stmt
			hasDefault := false
			for _, c := range x.Body.List {
				cc := c.(*ast.CommClause)
				var body []ast.Stmt
				idx := &ast.BasicLit{Kind: token.INT, Value: fmt.Sprint(len(chans))}
				if cc.Comm == nil {
					// default clause: the select does not block (zzrt.SelectRecvDefault returns -1 when no case is ready)
					hasDefault = true
					defaultBody = walkList(cc.Body)
					continue
				}
				switch cm := cc.Comm.(type) {
				case *ast.ExprStmt:
					u, isU := cm.X.(*ast.UnaryExpr)
					if !isU || u.Op != token.ARROW {
						ok = false
						continue
					}
					chans = append(chans, u.X)
					body = append(body, &ast.ExprStmt{X: zz("Recv", u.X)})
				case *ast.AssignStmt:
					if len(cm.Rhs) != 1 || len(cm.Lhs) != 1 {
						ok = false
						continue
					}
					u, isU := cm.Rhs[0].(*ast.UnaryExpr)
					if !isU || u.Op != token.ARROW {
						ok = false
						continue
					}
					chans = append(chans, u.X)
					body = append(body, &ast.AssignStmt{Lhs: cm.Lhs, Tok: cm.Tok, Rhs: []ast.Expr{zz("Recv", u.X)}})
				default:
					ok = false
					continue
				}
				body = append(body, walkList(cc.Body)...)
				sw.Body.List = append(sw.Body.List, &ast.CaseClause{List: []ast.Expr{idx}, Body: body})
			}
			sw.Tag = zz("SelectRecv", chans...)
			if hasDefault {
				sw.Tag = zz("SelectRecvDefault", chans...)
				neg := &ast.UnaryExpr{Op: token.SUB, X: &ast.BasicLit{Kind: token.INT, Value: "1"}}
				sw.Body.List = append(sw.Body.List, &ast.CaseClause{List: []ast.Expr{neg}, Body: defaultBody})
			}
			// keep the statement terminating when every case returns
			sw.Body.List = append(sw.Body.List, &ast.CaseClause{Body: []ast.Stmt{
				&ast.ExprStmt{X: &ast.CallExpr{Fun: ast.NewIdent("panic"), Args: []ast.Expr{&ast.BasicLit{Kind: token.STRING, Value: `"zzrt: select"`}}}}}})
			return sw
		}
		return s
	}
	walkList = func(list []ast.Stmt) []ast.Stmt {
		for i := range list {
			list[i] = walkStmt(list[i])
		}
		return list
	}
	for _, d := range f.Decls {
		if fd, isF := d.(*ast.FuncDecl); isF && fd.Body != nil {
			fd.Body.List = walkList(fd.Body.List)
		}
	}
	if !changed {
		return src, nil
	}
	if !ok {
		return src, nil
	}
	// make sure zzrt is imported
	has := false
	for _, im := range f.Imports {
		if strings.Trim(im.Path.Value, `"`) == modPath+"/zzrt" {
			has = true
		}
	}
	if !has {
		spec := &ast.ImportSpec{Path: &ast.BasicLit{Kind: token.STRING, Value: `"` + modPath + `/zzrt"`}}
		f.Decls = append([]ast.Decl{&ast.GenDecl{Tok: token.IMPORT, Specs: []ast.Spec{spec}}}, f.Decls...)
		f.Imports = append(f.Imports, spec)
	}
	var buf bytes.Buffer
	if err := (&printer.Config{Mode: printer.UseSpaces | printer.TabIndent, Tabwidth: 8}).Fprint(&buf, fset, f); err != nil {
		return nil, err
	}
	return buf.Bytes(), nil
}

// WriteOverlay materialises the view in dir and returns the overlay JSON path
// for `go build -overlay`.
func (v *View) WriteOverlay(dir string) (string, error) {
	repl := map[string]string{}
	i := 0
	keys := make([]string, 0, len(v.Files))
	for k := range v.Files {
		keys = append(keys, k)
	}
	sort.Strings(keys)
	for _, k := range keys {
		i++
		p := filepath.Join(dir, fmt.Sprintf("f%03d_%s", i, filepath.Base(k)))
		if err := os.WriteFile(p, v.Files[k], 0o644); err != nil {
			return "", err
		}
		repl[k] = p
	}
	b, _ := json.MarshalIndent(map[string]interface{}{"Replace": repl}, "", " ")
	op := filepath.Join(dir, "overlay.json")
	return op, os.WriteFile(op, b, 0o644)
}

// loadWorld loads and builds SSA for the given repo-relative package dirs.
func loadWorld(v *View, pkgDirs []string) (*World, error) {
	cfg := &packages.Config{
		Mode:    packages.LoadAllSyntax,
		Dir:     repoDir,
		Env:     goEnv(),
		Overlay: v.Files,
		Tests:   false,
	}
	var pats []string
	for _, d := range pkgDirs {
		pats = append(pats, "./"+d)
	}
	initial, err := packages.Load(cfg, pats...)
	if err != nil {
		return nil, err
	}
	var errs []string
	packages.Visit(initial, nil, func(p *packages.Package) {
		for _, e := range p.Errors {
			errs = append(errs, e.Error())
		}
	})
	if len(errs) > 0 {
		if len(errs) > 12 {
			errs = errs[:12]
		}
		return nil, &buildError{strings.Join(errs, "\n")}
	}
	prog, pkgs := ssautil.AllPackages(initial, ssa.InstantiateGenerics)
	w := &World{prog: prog, pkgs: map[string]*ssa.Package{}, modPath: modPath, fninfo: map[*ssa.Function]*fnInfo{}}
	for _, p := range pkgs {
		if p != nil {
			p.Build()
		}
	}
	for _, p := range prog.AllPackages() {
		w.pkgs[p.Pkg.Path()] = p
	}
	w.interpPkgs = map[string]bool{
		"math/bits": true, "slices": true, "maps": true, "cmp": true, "golang.org/x/exp/maps": true,
		"golang.org/x/exp/slices": true, "unicode/utf8": true, "sort": true, "math": true, "time": true,
		"internal/stringslite": true, "path": true, "path/filepath": true, "strings": true, "bytes": true, "io": true, "errors": true,
		"github.com/planetscale/vtprotobuf/codec/drpc": true, // Marshal/Unmarshal = the message's own MarshalVT/UnmarshalVT
	}
	rt := prog.ImportedPackage("runtime")
	if rt != nil {
		if t := rt.Type("errorString"); t != nil {
			w.runtimeErr = t.Object().Type()
		}
	}
	if w.runtimeErr == nil {
		w.runtimeErr = types.Universe.Lookup("error").Type()
	}
	return w, nil
}

type buildError struct{ msg string }

func (b *buildError) Error() string { return b.msg }
