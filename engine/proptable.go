package main

import (
	"fmt"
	"os/exec"
	"time"
)

func execOutput(name string, args ...string) (string, error) {
	b, err := exec.Command(name, args...).CombinedOutput()
	return string(b), err
}

var propTable = map[string]*PropSpec{}

func reg(p *PropSpec) { propTable[p.ID] = p }

func pm(kv ...interface{}) map[string]int {
	m := map[string]int{}
	for i := 0; i+1 < len(kv); i += 2 {
		m[kv[i].(string)] = kv[i+1].(int)
	}
	return m
}

func tierSel(tier string, quick, thorough int) int {
	if tier == "thorough" {
		return thorough
	}
	return quick
}

var commonAssumptions = []string{
	"executor: sequentially consistent at synchronisation granularity; Go integers are bit-vectors of their real width; pointers/slices/maps/channels have concrete shape",
	"log/slog, log.Print*, fmt.Fprint* are no-ops; fmt.Errorf/errors.New return opaque errors; actor.cleanTrace and runtime/debug.Stack are stubbed (stack-trace formatting is not a subject)",
	"sync, sync/atomic, time, math/rand, context are replaced by the models in /verif/rt/zzshim (rand.Intn(n) = any value in [0,n); time.Sleep advances a harness clock and yields)",
	"package initialisers: variable initialisers of module packages are executed, declared init() functions and foreign package initialisers are skipped",
	"a counterexample is reported only if the same harness, compiled natively against the same source view, reproduces it from the solver's values",
}

func l1(prop int, tier string, name string, k, f, b, mw, pills, life int, witnesses ...string) HarnessSpec {
	return HarnessSpec{Name: name, Pkg: "actor", Func: "ZZ_L1",
		Params:    pm("prop", prop, "K", k, "F", f, "B", b, "MW", mw, "pills", pills, "lifecrash", life),
		Witnesses: witnesses, Deadline: 20 * time.Minute}
}

func init() {
	reg(&PropSpec{
		ID: "C14",
		Harnesses: func(tier string) []HarnessSpec {
			m := tierSel(tier, 6, 12)
			return []HarnessSpec{
				{Name: "new-base-case", Pkg: "ringbuffer", Func: "ZZ_C14_New", Params: pm("M", 64)},
				{Name: "push-step", Pkg: "ringbuffer", Func: "ZZ_C14_PushStep", Params: pm("M", m), Witnesses: []string{"grow", "grow-while-wrapped"}},
				{Name: "pop-step", Pkg: "ringbuffer", Func: "ZZ_C14_PopStep", Params: pm("M", m)},
				{Name: "popn-step", Pkg: "ringbuffer", Func: "ZZ_C14_PopNStep", Params: pm("M", m), Witnesses: []string{"popn-across-wrap"}},
			}
		},
		Bounds: func(tier string) string {
			return fmt.Sprintf("one-step induction from an arbitrary valid state, capacity 1..%d, items/head/len/n/pushed value symbolic 64-bit", tierSel(tier, 6, 12))
		},
		Outside:     []string{"capacities above the bound (the arithmetic is capacity-generic, checked only to M)", "n < 0 for PopN (make panics; the only caller passes a constant)", "element types other than int64 (the code is generic and never inspects elements)"},
		Assumptions: append([]string{"representation invariant: 0<=head,tail<mod, 0<=len<mod, tail=(head+len) mod mod, len(items)=mod (established by New: base-case harness)"}, commonAssumptions...),
	})
	l1props := []struct {
		id   string
		prop int
		mw   int
	}{{"C04", 4, 0}, {"C05", 5, 0}, {"C06", 6, 0}, {"C07", 7, 0}, {"C13", 13, 2}}
	for _, lp := range l1props {
		lp := lp
		reg(&PropSpec{
			ID: lp.id,
			Harnesses: func(tier string) []HarnessSpec {
				k := tierSel(tier, 4, 5)
				hs := []HarnessSpec{
					l1(lp.prop, tier, "history", k, 2, 2, lp.mw, 1, 0),
					l1(lp.prop, tier, "lifecycle-crash", 2, 2, 2, lp.mw, 1, 1),
				}
				return hs
			},
			Bounds: func(tier string) string {
				return fmt.Sprintf("histories of <= %d operations (send / deliver batch / Poison / Stop) plus final drain, arbitrary batch splits, <= 2 panics (symbolic crash flag per message; lifecycle-handler panics in the second harness), MaxRestarts 0..2, middleware chain 0..%d", tierSel(tier, 4, 5), lp.mw)
			},
			Outside:     []string{"longer histories / more panics", "real Inbox scheduling (covered by C01-C03 harnesses)", "children (C08)"},
			Assumptions: append([]string{"L1 process unit: real process/Registry/Engine.send paths on a bare engine; the inbox is a fake that mirrors Inbox.Start/Stop and lets the harness choose every batch split; event stream is a synchronous recording sink"}, commonAssumptions...),
		})
	}
}
