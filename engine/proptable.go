package main

import (
	"fmt"
	"os/exec"
	"time"
)

func execOutput(name string, args ...string) (string, error) {
	b, err := exec.Command(name, args...).CombinedOutput()
	return string(b), err
}

var propTable = map[string]*PropSpec{}

func reg(p *PropSpec) { propTable[p.ID] = p }

const markNote = "message-boundary harness: 3 senders x 2-3 messages and the spawner, one deterministic base schedule plus a bounded number of preemptions between sends / before the spawn / at the start of message handlings (no preemption in the middle of a handler or of Send)"

// l2mark: the process unit with more senders and messages under a deterministic base schedule (ZZDETSCHED) with up
// to p preemptions at message boundaries (ZZMARKONLY: between two sends of a sender, before the spawn, at the start
// of every message handling).
func l2mark(prop, t, m, crash, p int, witnesses ...string) HarnessSpec {
	return HarnessSpec{Name: fmt.Sprintf("process-threads-at-message-boundaries(prop %d, %d senders x %d)", prop, t, m), Pkg: "actor", Func: "ZZ_L2", Preempt: p,
		Params:    pm("prop", prop, "T", t, "M", m, "crash", crash, "ZZMARKONLY", 1, "ZZDETSCHED", 1),
		Witnesses: append([]string{"senders-interleaved"}, witnesses...), Deadline: 40 * time.Minute, TrustRace: prop == 2}
}

func pm(kv ...interface{}) map[string]int {
	m := map[string]int{}
	for i := 0; i+1 < len(kv); i += 2 {
		m[kv[i].(string)] = kv[i+1].(int)
	}
	return m
}

func tierSel(tier string, quick, thorough int) int {
	if tier == "thorough" {
		return thorough
	}
	return quick
}

var commonAssumptions = []string{
	"executor: sequentially consistent at synchronisation granularity; Go integers are bit-vectors of their real width; pointers/slices/maps/channels have concrete shape",
	"log/slog, log.Print*, fmt.Fprint* are no-ops; fmt.Errorf/errors.New return opaque errors; actor.cleanTrace and runtime/debug.Stack are stubbed (stack-trace formatting is not a subject)",
	"sync, sync/atomic, time, math/rand, context are replaced by the models in /verif/rt/zzshim (rand.Intn(n) = any value in [0,n); time.Sleep advances a harness clock and yields)",
	"package initialisers: variable initialisers of module packages are executed, declared init() functions and foreign package initialisers are skipped",
	"a counterexample is reported only if the same harness, compiled natively against the same source view, reproduces it from the solver's values",
}

func l1(prop int, tier string, name string, k, f, b, mw, pills, life int, witnesses ...string) HarnessSpec {
	return HarnessSpec{Name: name, Pkg: "actor", Func: "ZZ_L1",
		Params:    pm("prop", prop, "K", k, "F", f, "B", b, "MW", mw, "pills", pills, "lifecrash", life),
		Witnesses: witnesses, Deadline: 20 * time.Minute}
}

func init() {
	reg(&PropSpec{
		ID: "C14",
		Harnesses: func(tier string) []HarnessSpec {
			m := tierSel(tier, 6, 12)
			hs := []HarnessSpec{
				{Name: "new-base-case", Pkg: "ringbuffer", Func: "ZZ_C14_New", Params: pm("M", 64)},
				{Name: "push-step", Pkg: "ringbuffer", Func: "ZZ_C14_PushStep", Params: pm("M", m), Witnesses: []string{"grow", "grow-while-wrapped"}},
				{Name: "pop-step", Pkg: "ringbuffer", Func: "ZZ_C14_PopStep", Params: pm("M", m)},
				{Name: "popn-step", Pkg: "ringbuffer", Func: "ZZ_C14_PopNStep", Params: pm("M", m), Witnesses: []string{"popn-across-wrap"}},
				{Name: "sequences-from-New", Pkg: "ringbuffer", Func: "ZZ_C14_Seq", Params: pm("S", 3, "K", tierSel(tier, 5, 7)), Witnesses: []string{"seq-grew"}, Deadline: 30 * time.Minute},
				{Name: "concurrent-linearizable(2x1)", Pkg: "ringbuffer", Func: "ZZ_C14_Conc", Preempt: 2, Params: pm("S", 2, "T", 2, "M", 1), Witnesses: []string{"conc-grew"}, TrustRace: true, Deadline: 30 * time.Minute},
			}
			if tier == "thorough" {
				hs = append(hs,
					HarnessSpec{Name: "concurrent-linearizable(2x2)", Pkg: "ringbuffer", Func: "ZZ_C14_Conc", Preempt: 2, Params: pm("S", 2, "T", 2, "M", 2), Witnesses: []string{"conc-grew"}, TrustRace: true, Deadline: 60 * time.Minute},
					HarnessSpec{Name: "concurrent-linearizable(3x1)", Pkg: "ringbuffer", Func: "ZZ_C14_Conc", Preempt: 2, Params: pm("S", 2, "T", 3, "M", 1), Witnesses: []string{"conc-grew"}, TrustRace: true, Deadline: 60 * time.Minute})
			}
			return hs
		},
		Bounds: func(tier string) string {
			return fmt.Sprintf("one-step induction from an arbitrary valid state, capacity 1..%d, items/head/len/n/pushed value symbolic 64-bit; sequences of %d operations (Push of a symbolic value/Pop/PopN(0..3)/Len) from New(1..3) against a slice model, every batch returned by PopN kept and compared again after each later operation; concurrent clause: %s on a ring of initial size 1..2 holding 0..2 elements, every interleaving at synchronisation granularity within 2 preemptions, oracle = a linearisation consistent with real-time order exists + no data race (happens-before detector on the repository's plain and atomic accesses)",
				tierSel(tier, 6, 12), tierSel(tier, 5, 7), map[string]string{"quick": "2 goroutines x 1 operation", "thorough": "2 goroutines x 1 and x 2 operations, 3 goroutines x 1 operation"}[tier])
		},
		Outside:     []string{"capacities above the bound (the arithmetic is capacity-generic, checked only to M)", "n < 0 for PopN (make panics; the only caller passes a constant)", "element types other than int64 (the code is generic and never inspects elements)", "concurrent clause: more goroutines/operations/preemptions; memory-model effects below sequential consistency are covered only through the race detector (a reported race is not natively confirmable and is trusted)"},
		Assumptions: append([]string{"representation invariant: 0<=head,tail<mod, 0<=len<mod, tail=(head+len) mod mod, len(items)=mod (established by New: base-case harness)", "concurrent clause: pushed values are distinct constants (elements are opaque to the ring)"}, commonAssumptions...),
	})
	l1props := []struct {
		id   string
		prop int
		mw   int
	}{{"C04", 4, 1}, {"C05", 5, 1}, {"C06", 6, 0}, {"C07", 7, 0}, {"C13", 13, 2}}
	for _, lp := range l1props {
		lp := lp
		reg(&PropSpec{
			ID: lp.id,
			Harnesses: func(tier string) []HarnessSpec {
				k := tierSel(tier, 4, 5)
				hs := []HarnessSpec{
					l1(lp.prop, tier, "history", k, 2, 2, lp.mw, 1, 0),
					l1(lp.prop, tier, "lifecycle-crash", 2, 2, 2, lp.mw, 1, 1),
				}
				if lp.prop == 5 {
					hs = append(hs, HarnessSpec{Name: "crash-and-restart-under-concurrent-senders", Pkg: "actor", Func: "ZZ_L2", Preempt: 2,
						Params: pm("prop", 5, "T", 2, "M", 2, "crash", 1), Witnesses: []string{"restart"}, Deadline: 40 * time.Minute})
					hs = append(hs, l2mark(5, 3, 3, 1, tierSel(tier, 3, 5), "restart"))
				}
				if lp.prop == 6 {
					hs[0].Witnesses = append(hs[0].Witnesses, "panic-with-InternalError")
					hs = append(hs, HarnessSpec{Name: "budget-exhausted-by-a-parent-with-children", Pkg: "actor", Func: "ZZ_C08", Preempt: 1,
						Params: pm("D", 1, "F", 2, "mode", 5), Witnesses: []string{"terminated-after-a-restart"}, Deadline: 40 * time.Minute, ReplayAttempts: 8})
				}
				if lp.prop == 7 {
					hs = append(hs, HarnessSpec{Name: "poison-caller-waits-among-concurrent-senders", Pkg: "actor", Func: "ZZ_L2", Preempt: 2,
						Params: pm("prop", 7, "T", 2, "M", 2, "crash", 0), Witnesses: []string{"poison-accepted"}, Deadline: 40 * time.Minute})
					hs = append(hs, l2mark(7, 3, 2, 0, tierSel(tier, 4, 6), "poison-accepted"))
				}
				if lp.prop == 4 {
					hs = append(hs, HarnessSpec{Name: "messages-queued-while-shutting-down", Pkg: "actor", Func: "ZZ_C08", Preempt: 1,
						Params: pm("D", 1, "F", 2, "mode", 3), Witnesses: []string{"child-busy-when-parent-stops"}, Deadline: 40 * time.Minute, ReplayAttempts: 8, TrustRace: true})
				}
				if lp.prop == 4 {
					hs = append(hs, HarnessSpec{Name: "spawn-races-with-senders", Pkg: "actor", Func: "ZZ_L2", Preempt: 2,
						Params: pm("prop", 4, "T", 2, "M", 2, "crash", 0), Witnesses: []string{"send-before-registration", "partially-accepted"}, Deadline: 30 * time.Minute})
					hs = append(hs, l2mark(4, 3, 3, 0, tierSel(tier, 4, 6), "send-before-registration", "partially-accepted"))
				}
				return hs
			},
			Bounds: func(tier string) string {
				mn := ""
				if lp.prop == 4 || lp.prop == 5 || lp.prop == 7 {
					mn = "; " + markNote
				}
				return fmt.Sprintf("histories of <= %d operations (send / deliver batch / Poison / Stop) plus final drain, arbitrary batch splits, <= 2 panics (symbolic crash flag per message; lifecycle-handler panics in the second harness), MaxRestarts 0..2, middleware chain 0..%d", tierSel(tier, 4, 5), lp.mw) + mn
			},
			Outside:     []string{"longer histories / more panics", "real Inbox scheduling for the history harnesses (C05 adds a threaded harness: spawner + 2 senders x 2 messages on the real Inbox, one symbolic crash, preemption bound 2; C01-C03 cover the inbox itself)", "children (C08)"},
			Assumptions: append([]string{"L1 process unit: real process/Registry/Engine.send paths on a bare engine; the inbox is a fake that mirrors Inbox.Start/Stop and lets the harness choose every batch split; event stream is a synchronous recording sink"}, commonAssumptions...),
		})
	}

	seqAssume := func(extra ...string) []string { return append(extra, commonAssumptions...) }
	reg(&PropSpec{
		ID: "C16",
		Harnesses: func(tier string) []HarnessSpec {
			mw := []string{"delivered-from-bytes", "rejected", "negative-index-decoded"}
			return []HarnessSpec{
				{Name: "reader-envelope", Pkg: "remote", Func: "ZZ_C16_Reader", Params: pm("M", tierSel(tier, 2, 3)),
					Witnesses: []string{"delivered", "empty-type-name", "type-name-of-a-service"}, Deadline: 60 * time.Minute},
				{Name: "decoder-on-arbitrary-bytes", Pkg: "remote", Func: "ZZ_C16_Bytes", Params: pm("N", tierSel(tier, 5, 6)),
					Witnesses: []string{"accepted", "accepted-with-message", "rejected"}, Deadline: 120 * time.Minute},
				{Name: "message-body-bytes", Pkg: "remote", Func: "ZZ_C16_MsgBytes", Params: pm("K", tierSel(tier, 6, 7)),
					Witnesses: mw, Deadline: 120 * time.Minute},
			}
		},
		Bounds: func(tier string) string {
			return fmt.Sprintf("(a) one decoded envelope: 0..2 type names (from {remote.TestMessage, actor.PID, one name no message type answers to: unregistered, empty, the name of a field or the name of a service of the module's .proto files}), 0..2 targets (two recording actors, an unregistered id, or the node's own stream-writer actor towards another peer, which is registered under a well-known id), 0..2 senders, 1..%d messages whose TargetIndex/SenderIndex/TypeNameIndex are unconstrained symbolic int32; (b) Envelope.UnmarshalVT (+ PID/Message.UnmarshalVT, skip) on every byte string of length 0..%d (each byte symbolic), followed by streamReader.Receive on whatever it accepts; (c) a well-formed table prefix (1..2 type names, 2 targets, 0..1 sender, real MarshalVT) followed by one Messages field with 0..%d symbolic body bytes, decoded and fed to the reader", tierSel(tier, 2, 3), tierSel(tier, 5, 6), tierSel(tier, 6, 7))
		},
		Outside:     []string{"byte strings longer than the bounds (a delivery needs >= 6 bytes: whole-buffer deliveries are reached only in the thorough tier; the message-body harness reaches them in both)", "DRPC framing in front of the envelope bytes", "payload decoding in (b)/(c): the Deserializer is a stub that numbers its calls; in (a) the real ProtoSerializer runs over the protobuf runtime model (GlobalTypes, GlobalFiles lookups, proto.Unmarshal = the generated UnmarshalVT + UTF-8 check; dynamicpb and methods on descriptors are not modelled)", "more than one envelope per stream"},
		Assumptions: seqAssume("stream = stub returning the envelope then an error; engine = bare engine with two recording processes (actor harness helper)"),
	})
	reg(&PropSpec{
		ID: "C18",
		Harnesses: func(tier string) []HarnessSpec {
			hs := []HarnessSpec{{Name: "snapshots", Pkg: "cluster", Func: "ZZ_C18_Snapshots", Params: pm("U", 3, "N", 3, "MOVE", 1, "ROT", 1),
				Witnesses: []string{"duplicate-entry", "leave", "member-listed-under-another-host", "two-members-on-one-host"}, Deadline: 30 * time.Minute, ReplayAttempts: 24},
				{Name: "snapshots-under-every-rotation-of-map-order", Pkg: "cluster", Func: "ZZ_C18_Snapshots", Params: pm("U", tierSel(tier, 4, 5), "N", 2, "MOVE", 1, "ROT", 1),
					Witnesses: []string{"leave"}, Deadline: 60 * time.Minute, ReplayAttempts: 24}}
			if tier == "thorough" {
				// 3 snapshots over 4 members with host changes and shared hosts did not finish in 30 minutes (95 million
				// states); without the host variations it does
				hs = append(hs, HarnessSpec{Name: "snapshots-four-members-fixed-hosts", Pkg: "cluster", Func: "ZZ_C18_Snapshots", Params: pm("U", 4, "N", 3, "MOVE", 0, "ROT", 1),
					Witnesses: []string{"duplicate-entry", "leave"}, Deadline: 60 * time.Minute, ReplayAttempts: 24})
			}
			return hs
		},
		Bounds: func(tier string) string {
			return fmt.Sprintf("sequences of 3 snapshots over a universe of 3 members, and of 2 snapshots over %d members, with fixed kind sets (one member without kinds, two sharing a kind); membership of each member in each snapshot, a change of host under the same ID, a host shared with another member (two IDs on one address) and a duplicate entry are symbolic booleans; every snapshot contains the observing node; the last snapshot of each history is processed under every rotation of the map iteration order%s (3 snapshots over 4 members with host variations, and 4 snapshots over 4 members, did not finish in 30 minutes and are not registered)", tierSel(tier, 4, 5), map[string]string{"quick": "", "thorough": "; thorough adds 3 snapshots over 4 members with fixed hosts"}[tier])
		},
		Outside:     []string{"members that change their kinds between snapshots while keeping their ID (a change of host under the same ID is included: symbolic per entry)", "the Request/Result plumbing around Members()/HasKind() (the agent is sent the same getMembers/getKinds messages and its answers are checked, next to its state)", "longer sequences / larger universes", "map iteration order: insertion order, and for the last snapshot of a history every rotation of it (the orders Go produces for a small map); other permutations are not explored"},
		Assumptions: seqAssume("Agent built by NewAgent on a Cluster value whose engine is a bare engine with a synchronous event sink; snapshots are delivered by calling Agent.Receive"),
	})
	reg(&PropSpec{
		ID: "C20",
		Harnesses: func(tier string) []HarnessSpec {
			hs := []HarnessSpec{{Name: "provider-history", Pkg: "cluster", Func: "ZZ_C20_Provider", Params: pm("U", tierSel(tier, 3, 4), "N", 3, "SHARE", 1, "ROT", 1),
				Witnesses: []string{"unreachable-member", "unreachable-non-member", "two-members-on-the-reported-address"}, Deadline: 30 * time.Minute}}
			hs = append(hs, HarnessSpec{Name: "unreachable-report-while-the-provider-handles-a-handshake", Pkg: "cluster", Func: "ZZ_C20_Race", Preempt: tierSel(tier, 2, 3),
				Witnesses: []string{"report-while-the-provider-handles-the-handshake"}, TrustRace: true, Deadline: 20 * time.Minute})
			if tier == "thorough" {
				hs = append(hs, HarnessSpec{Name: "provider-history-longer", Pkg: "cluster", Func: "ZZ_C20_Provider", Params: pm("U", 3, "N", 4, "SHARE", 1, "ROT", 1),
					Witnesses: []string{"unreachable-member", "unreachable-non-member"}, Deadline: 40 * time.Minute})
			}
			return hs
		},
		Bounds: func(tier string) string {
			return fmt.Sprintf("histories of %d messages (handshake from any peer / member list with symbolic contents / RemoteUnreachableEvent for any member address or an unknown address, delivered to the provider's event-stream child handler and forwarded by it) over a universe of %d members%s", 3, tierSel(tier, 3, 4), map[string]string{"quick": "", "thorough": "; and histories of 4 messages over 3 members (4 messages over 4 members did not finish in 30 minutes and is not registered)"}[tier])
		},
		Outside:     []string{"the Started handler (zeroconf announce/browse, ping repeater); the event-stream child's handler is driven directly (its subscription to the event stream is not); provider and child run concurrently only in the race harness (one handshake against one report, happens-before race detector on the repository's accesses, a reported race is trusted)", "which of two members sharing one address a report removes (either is accepted; exactly one must go)", "map iteration order: insertion order, and for the last operation of a history every rotation of it (the orders Go produces for a small map); other permutations are not explored"},
		Assumptions: seqAssume("SelfManaged built by its producer on a Cluster value with a bare engine, a recording agent process and a recording remote; its own member added as Started does; messages delivered by calling Receive"),
	})

	es := func(prop int, tier string, witnesses ...string) HarnessSpec {
		return HarnessSpec{Name: "event-stream-history", Pkg: "actor", Func: "ZZ_ES",
			Params: pm("prop", prop, "K", tierSel(tier, 4, 5), "S", 2, "L", 30, "X", map[bool]int{true: 1}[prop == 12]), Witnesses: witnesses, Deadline: 100 * time.Minute}
	}
	reg(&PropSpec{
		ID: "C09",
		Harnesses: func(tier string) []HarnessSpec {
			return []HarnessSpec{es(9, tier, "stopped-subscriber", "equal-pid-distinct-object"),
				{Name: "dead-letters-while-the-registry-is-written", Pkg: "actor", Func: "ZZ_C09_Conc", Preempt: tierSel(tier, 1, 2), Params: pm("G", tierSel(tier, 2, 2)),
					Witnesses: []string{"dead-letters-while-the-registry-is-written"}, Deadline: 60 * time.Minute}}
		},
		Bounds: func(tier string) string {
			return fmt.Sprintf("histories of %d operations (subscribe / unsubscribe with the same or an equal PID object, broadcast, send to an unregistered local PID with or without sender, send to a foreign address without remote, send to nil, a subscriber stops while subscribed) over 2 subscribers; the operation, object identity and sender choices are symbolic; 'finite' = the event queue drains within 30 handled events after each operation", tierSel(tier, 4, 5))
		},
		Outside:     []string{"the event stream's own inbox and goroutine (events are queued and handled one at a time by the harness)", "remote subscribers", "an unbounded event count that stays below 30 per operation"},
		Assumptions: seqAssume("event-stream unit: the real eventStream receiver, Engine.send/SendLocal/BroadcastEvent/Subscribe/Unsubscribe and Registry on a bare engine; the event stream's process is a queue drained by the harness; subscribers are recording processes"),
	})
	reg(&PropSpec{
		ID: "C12",
		Harnesses: func(tier string) []HarnessSpec {
			return []HarnessSpec{{Name: "concurrent-broadcasters", Pkg: "actor", Func: "ZZ_C12_Threads", Preempt: 2, Params: pm("G", 2), Witnesses: []string{"saw-events-of-the-other-broadcaster"}, Deadline: 40 * time.Minute},
				es(12, tier, "equal-pid-distinct-object", "unsubscribe-of-another-pid", "lifecycle-event-naming-a-subscriber"),
				{Name: "subscribers-that-stopped-without-unsubscribing", Pkg: "actor", Func: "ZZ_C12_Prune", Params: pm("S", tierSel(tier, 4, 5)), Witnesses: []string{"some-subscribers-stopped-without-unsubscribing"}, Deadline: 20 * time.Minute}, l1(12, tier, "lifecycle-events", tierSel(tier, 4, 5), 2, 2, 0, 1, 0)}
		},
		Bounds: func(tier string) string {
			return fmt.Sprintf("event-stream unit: histories of %d subscribe/unsubscribe/broadcast operations over 2 subscriber PIDs, each given as the registered object or as an equal PID in a distinct object (symbolic), plus Unsubscribe of some other PID whose address and id are symbolic strings (any split of 10 bytes, only equality with a subscriber's PID excluded) and broadcasts of an ActorStoppedEvent naming a subscriber's PID, neither of which may change anybody's subscription; lifecycle events: L1 histories of %d operations with <= 2 panics counting ActorStarted/Restarted/Stopped events per occurrence", tierSel(tier, 4, 5), tierSel(tier, 4, 5))
		},
		Outside:     []string{"more than 2 concurrent broadcasters / preemption bound 2 (threaded harness: the event stream is a real process with its real Inbox; 2 goroutines each subscribe their own recording subscriber, broadcast twice, unsubscribe by value, broadcast once more)", "duplicate-id and dead-letter events (C10, C09)", "remote subscribers"},
		Assumptions: seqAssume("event-stream unit as for C09; L1 process unit as for C04"),
	})

	reg(&PropSpec{
		ID: "C15",
		Harnesses: func(tier string) []HarnessSpec {
			hs := []HarnessSpec{
				{Name: "writer-reader-roundtrip", Pkg: "remote", Func: "ZZ_C15_RoundTrip", Params: pm("N", tierSel(tier, 2, 3), "SL", 2, "WIRE", 0),
					Witnesses: []string{"mixed-nil-sender", "unserialisable", "zero-length-payload", "sender-is-also-a-target"}, Deadline: 30 * time.Minute},
				{Name: "writer-codec-reader-roundtrip", Pkg: "remote", Func: "ZZ_C15_RoundTrip", Params: pm("N", 2, "SL", 2, "WIRE", 1),
					Witnesses: []string{"mixed-nil-sender", "unserialisable"}, Deadline: 30 * time.Minute},
				// the production configuration: real ProtoSerializer on both sides, module message types, the two kinds
				// of payload it cannot serialise (invalid UTF-8 in a string field, a value that is no protobuf message)
				{Name: "production-serializer-roundtrip", Pkg: "remote", Func: "ZZ_C15_Proto", Params: pm("N", tierSel(tier, 3, 4)),
					Witnesses: []string{"batch-checked", "zero-length-payload", "payload-that-proto-Marshal-refuses", "payload-that-is-not-a-protobuf-message"}, Deadline: 30 * time.Minute},
			}
			// the wire codec alone: each index field in turn over the whole int32 range, the others 0..127
			for _, w := range []int{1, 2, 4} {
				hs = append(hs, HarnessSpec{Name: fmt.Sprintf("codec-wide-index(mask %d)", w), Pkg: "remote", Func: "ZZ_C15_Codec",
					Params: pm("M", 1, "WIDE", w, "D", 2, "TABLES", 0), Witnesses: []string{"ten-byte-varint-possible"}, Deadline: 30 * time.Minute})
			}
			if tier == "thorough" {
				hs = append(hs,
					HarnessSpec{Name: "codec-all-three-indices-wide", Pkg: "remote", Func: "ZZ_C15_Codec", Params: pm("M", 1, "WIDE", 7, "D", 1, "TABLES", 0), Witnesses: []string{"ten-byte-varint-possible"}, Deadline: 60 * time.Minute},
					HarnessSpec{Name: "codec-two-messages-one-wide-each", Pkg: "remote", Func: "ZZ_C15_Codec", Params: pm("M", 2, "WIDE", 1|32, "D", 1, "TABLES", 0), Witnesses: []string{"ten-byte-varint-possible"}, Deadline: 60 * time.Minute},
					HarnessSpec{Name: "codec-table-shapes", Pkg: "remote", Func: "ZZ_C15_Codec", Params: pm("M", 1, "WIDE", 2, "D", 1, "TABLES", 1), Deadline: 60 * time.Minute})
			}
			return hs
		},
		Bounds: func(tier string) string {
			return fmt.Sprintf("(a) batches of 1..%d messages to 2 targets on the receiving node; per message: sender absent, one of the target PIDs, or a PID whose address and id are symbolic strings of 1..2 bytes each (equal senders and senders differing only in the address/id split included), one of 2 type names, symbolic payload byte, symbolic 'cannot be serialised' and 'serialises to zero bytes' flags; the Envelope is handed over in memory; (b) the same with batches of 1..2 and the Envelope carried as the bytes of the real MarshalVT and decoded by the real UnmarshalVT; (c) the generated codec alone (SizeVT, MarshalVT, UnmarshalVT of Envelope/Message/PID): one message whose TypeNameIndex / SenderIndex / TargetIndex in turn ranges over all of int32 (every varint length class, negative = 10 bytes) while the others range over 0..127, 0..2 symbolic payload bytes; (d) production configuration: batches of 1..%d messages through the real ProtoSerializer on both sides and the real codec, each message one of TestMessage with a data byte / actor.PID as payload / empty TestMessage / a PID payload with an id that is not valid UTF-8 / a value that is not a protobuf message, to one of 2 targets, with or without sender%s", tierSel(tier, 2, 3), tierSel(tier, 3, 4), map[string]string{"quick": "", "thorough": "; thorough: all three indices wide at once, two messages with one wide index each, and table shapes 0..2 x 0..2 x 0..1"}[tier])
		},
		Outside:     []string{"the protobuf runtime below ProtoSerializer (reflection-based Marshal/Unmarshal/registry) is a model: the message's own generated VT codec plus the UTF-8 check proto.Marshal/Unmarshal perform; ProtoSerializer's three methods themselves are executed in the production-serializer harness, the table/index harnesses use stub serializers with symbolic outcomes", "DRPC framing", "targets on several addresses (one stream writer serves one address)", "longer batches and strings", "codec: three or more simultaneously multi-byte indices across several messages"},
		Assumptions: seqAssume("writer = real streamWriter.Invoke with a stub stream/conn; reader = real streamReader.Receive on a bare engine with recording processes; xxh3.Hash, where still used, is an uninterpreted function with injectivity instances"),
	})

	inbox := func(prop int, tier string, witnesses ...string) HarnessSpec {
		return HarnessSpec{Name: "inbox-unit", Pkg: "actor", Func: "ZZ_Inbox", Preempt: 2,
			Params: pm("prop", prop, "T", tierSel(tier, 2, 3), "M", 2, "S", 3), Witnesses: append([]string{"start-races-with-senders"}, witnesses...), Deadline: 120 * time.Minute, TrustRace: prop == 2 || prop == 1}
	}
	l2 := func(prop int, t, m, crash int, witnesses ...string) HarnessSpec {
		return HarnessSpec{Name: fmt.Sprintf("process-threads(prop %d)", prop), Pkg: "actor", Func: "ZZ_L2", Preempt: 2,
			Params: pm("prop", prop, "T", t, "M", m, "crash", crash), Witnesses: witnesses, Deadline: 40 * time.Minute, TrustRace: prop == 2}
	}
	thrAssume := func(extra ...string) []string {
		return append(append(extra, "schedules: every interleaving of the goroutines at synchronisation granularity (atomics, mutexes, go, Gosched, Sleep, receiver yields) with at most 2 preemptions; interleavings are enumerated by the executor's scheduler decisions, data (payloads, crash flags) is symbolic and decided by z3", "goscheduler.Schedule's `go fn()` is an executor thread"), commonAssumptions...)
	}
	backlog := HarnessSpec{Name: "backlog-longer-than-a-batch", Pkg: "actor", Func: "ZZ_Inbox_Backlog", Preempt: 0,
		Params: pm("ZZMAXALLOC", 20000, "ZZDETSCHED", 1), Witnesses: []string{"backlog-split-into-batches"}, MaxSteps: 6_000_000, Deadline: 30 * time.Minute}
	reg(&PropSpec{
		ID: "C01",
		Harnesses: func(tier string) []HarnessSpec {
			return []HarnessSpec{inbox(1, tier, "several-batches"), l2(4, tierSel(tier, 2, 2), tierSel(tier, 2, 3), 0, "partially-accepted"), backlog,
				// order and exactly-once of the messages that do not crash, around a crash and restart (shared with C05)
				{Name: "order-around-a-restart", Pkg: "actor", Func: "ZZ_L2", Preempt: 2, Params: pm("prop", 5, "T", 2, "M", 2, "crash", 1), Witnesses: []string{"restart"}, Deadline: 40 * time.Minute},
				l2mark(4, 3, 3, 0, tierSel(tier, 4, 6), "send-before-registration", "partially-accepted"),
				l2mark(5, 3, 3, 1, tierSel(tier, 3, 5), "restart")}
		},
		Bounds: func(tier string) string {
			return fmt.Sprintf("inbox unit: %d sender goroutines x 2 messages with symbolic payloads, initial ring size 1..3 (growth and wrap occur; 3 is not a power of two), Start before or racing with the senders, preemption bound 2; process unit: spawner + 2 senders on a real process/Inbox of size 1; "+markNote, tierSel(tier, 2, 3))
		},
		Outside:     []string{"more goroutines / messages / preemptions", "ring-buffer arithmetic beyond these sizes (C14 covers it inductively)", "backlogs above messageBatchSize only sequentially: 4097 or 4100 messages queued before Start (or behind a started worker), initial ring size 1, 1000 or 4096, one schedule"},
		Assumptions: thrAssume("inbox unit: real Inbox, RingBuffer and goscheduler with a recording Processer"),
	})
	reg(&PropSpec{
		ID: "C02",
		Harnesses: func(tier string) []HarnessSpec {
			return []HarnessSpec{inbox(2, tier), l2(2, 2, 2, 1, "restart", "restart-during-spawn"), l2mark(2, 3, 2, 1, tierSel(tier, 4, 6), "restart", "restart-during-spawn"),
				{Name: "child-busy-when-its-parent-shuts-down", Pkg: "actor", Func: "ZZ_C08", Preempt: 1, Params: pm("D", 1, "F", 2, "mode", 3),
					Witnesses: []string{"child-busy-when-parent-stops"}, Deadline: 40 * time.Minute, ReplayAttempts: 8, TrustRace: true}}
		},
		Bounds: func(tier string) string {
			return fmt.Sprintf("inbox unit: %d senders x 2 messages, Start racing, preemption bound 2, receiver yields inside every Invoke; process unit: spawner (Initialized/Started on its goroutine) + 2 senders x 2 messages, one symbolic crash - a user message (restart on the worker goroutine) or the first incarnation's Started handler (restart on the spawning goroutine while senders already push) -, receiver yields twice inside every Receive; overlap = a second Receive/Invoke entered while one is active; happens-before: the receiver declares an unsynchronised write to its state at every entry and the executor's vector-clock race detector (edges: atomics, mutexes, go, channel operations) must find every pair of entries ordered, and no unordered plain/atomic conflict in the repository's own accesses; "+markNote, tierSel(tier, 2, 3))
		},
		Outside:     []string{"Stop/Poison callers of the actor itself (a parent-initiated shutdown of a busy child is included: tree harness, preemption bound 1)", "more goroutines / preemptions", "a data race reported by the executor's detector cannot be confirmed by native replay and is trusted (the detector's edges are those of the sync/atomic models)"},
		Assumptions: thrAssume("units as for C01"),
	})
	reg(&PropSpec{
		ID:        "C03",
		Harnesses: func(tier string) []HarnessSpec { return []HarnessSpec{inbox(3, tier), backlog} },
		Bounds: func(tier string) string {
			return fmt.Sprintf("%d sender goroutines x 2 messages, initial ring size 1..3, Start before or racing with the senders, preemption bound 2; at quiescence (every goroutine finished) all messages were handled, the ring is empty and the status is idle", tierSel(tier, 2, 3))
		},
		Outside:     []string{"more goroutines / messages / preemptions", "Stop racing with Send", "backlogs above messageBatchSize only sequentially (4097 / 4100 messages, one schedule)"},
		Assumptions: thrAssume("inbox unit as for C01"),
	})
	reg(&PropSpec{
		ID: "C10",
		Harnesses: func(tier string) []HarnessSpec {
			return []HarnessSpec{
				{Name: "spawn-stop-respawn", Pkg: "actor", Func: "ZZ_C10_Seq", Params: pm("K", tierSel(tier, 5, 6)), Witnesses: []string{"duplicate-spawn", "respawn-after-stop", "died-during-its-own-start"}},
				l2(10, tierSel(tier, 1, 2), 2, 0),
				l2mark(10, 3, 2, 0, tierSel(tier, 4, 6), "send-before-registration"),
				{Name: "id-respawned-while-owner-shuts-down", Pkg: "actor", Func: "ZZ_C08", Preempt: tierSel(tier, 1, 2), Params: pm("D", 1, "F", 2, "mode", 1),
					Witnesses: []string{"root-id-respawned-during-shutdown"}, Deadline: 60 * time.Minute, ReplayAttempts: 8},
				{Name: "id-respawned-from-the-owner's-Stopped-handler", Pkg: "actor", Func: "ZZ_C08", Preempt: 2, Params: pm("D", 1, "F", 2, "mode", 2),
					Witnesses: []string{"replacement-spawned"}, Deadline: 60 * time.Minute, ReplayAttempts: 8},
			}
		},
		Bounds: func(tier string) string {
			return fmt.Sprintf("sequential histories of %d operations spawn/send/stop/deliver on one id (operation symbolic); threaded: two concurrent SpawnProc of one id + %d sender(s) x 2 messages, preemption bound 2; a parent with 2 children is stopped/poisoned while another goroutine spawns the parent's id again (real inboxes, preemption bound %d): the id is only taken again once the previous owner's children have handled Stopped and are unregistered; a child poisoned by a third party asks its parent, from inside its Stopped handler, to spawn its id again (preemption bound 2): the replacement, once started, is registered and stays registered; "+markNote, tierSel(tier, 5, 6), tierSel(tier, 1, 2), tierSel(tier, 1, 2))
		},
		Outside:     []string{"SpawnChild (same Registry.add path)", "several ids (the registry map is keyed by id; ids do not interact)", "the window between an actor's unregistration and its own Stopped handler (a respawn accepted there is not flagged)"},
		Assumptions: thrAssume("L1 (fake inbox) for the sequential histories, L2 (real Inbox) for the concurrent spawns"),
	})

	reg(&PropSpec{
		ID: "C11",
		Harnesses: func(tier string) []HarnessSpec {
			hs := []HarnessSpec{{Name: "request-response", Pkg: "actor", Func: "ZZ_C11", Preempt: tierSel(tier, 1, 2), Params: pm("R", 2, "SLEEP", 0),
				Witnesses: []string{"replied", "timed-out", "reply-before-Result-entered", "follow-up-replied"}, Deadline: 60 * time.Minute},
				{Name: "dawdling-requester-and-replier", Pkg: "actor", Func: "ZZ_C11", Preempt: 2, Params: pm("R", 1, "SLEEP", 3, "CTXREQ", 1),
					Witnesses: []string{"replied", "timed-out", "late-reply", "requester-dawdles-past-the-timeout-before-Result", "reply-collected-after-the-timeout-had-passed-since-Request", "asking-actor's-context-cancelled"}, Deadline: 60 * time.Minute},
				{Name: "concurrent-requests", Pkg: "actor", Func: "ZZ_C11_Conc", Preempt: 2, Params: pm("R", tierSel(tier, 2, 3)),
					Witnesses: []string{"concurrent-request-replied"}, TrustRace: true, Deadline: 60 * time.Minute}}
			if tier == "thorough" {
				hs = append(hs, HarnessSpec{Name: "two-requests-dawdling", Pkg: "actor", Func: "ZZ_C11", Preempt: 1, Params: pm("R", 2, "SLEEP", 3),
					Witnesses: []string{"late-reply", "reply-collected-after-the-timeout-had-passed-since-Request"}, Deadline: 90 * time.Minute})
			}
			return hs
		},
		Bounds: func(tier string) string {
			return fmt.Sprintf("2 concurrent requests to one responder; each is replied to 0, 1 or 2 times by a replier goroutine; time model: a timeout timer is runnable only once the harness clock has reached its deadline, and the clock moves when a requester dawdles (2 x timeout) between Request and Result, when the replier dawdles before a reply, or to the earliest pending deadline when every goroutine is blocked (second harness: 1 request, both kinds of dawdling, preemption bound 2; thorough adds 2 requests with dawdling); response ids drawn from math/rand are symbolic (any value in range); preemption bound %d", tierSel(tier, 1, 2))
		},
		Outside:     []string{"more than 2 requests / 2 replies in the history harness (requests issued one after the other, then a follow-up request); the concurrent harness issues its requests from goroutines (distinct registered response PIDs, race detector on the engine's bookkeeping, each reply reaches its requester)", "a second reply that arrives before Result returned (buffered and dropped, not covered by the statement)", "requests through Context.Request only in the one-request harness (made by an actor spawned WithContext whose application context may be cancelled while the request is outstanding)"},
		Assumptions: thrAssume("bare engine, recording responder, Response/Registry real; context.WithTimeout/WithDeadline modelled by a timer goroutine that cancels once the harness clock has reached the deadline"),
	})

	reg(&PropSpec{
		ID: "C08",
		Harnesses: func(tier string) []HarnessSpec {
			return []HarnessSpec{
				{Name: "supervision-tree", Pkg: "actor", Func: "ZZ_C08", Preempt: tierSel(tier, 1, 2), Params: pm("D", 1, "F", 2, "mode", 0),
					Witnesses: []string{"child-stopped-on-its-own", "third-party-poisons-child-during-shutdown", "child-panics-in-Stopped"}, Deadline: 60 * time.Minute, ReplayAttempts: 8},
				{Name: "stopping-child-is-replaced", Pkg: "actor", Func: "ZZ_C08", Preempt: 2, Params: pm("D", 1, "F", 2, "mode", 2),
					Witnesses: []string{"replacement-spawned"}, Deadline: 60 * time.Minute, ReplayAttempts: 8},
				{Name: "child-dies-during-its-own-start", Pkg: "actor", Func: "ZZ_C08", Preempt: 1, Params: pm("D", 1, "F", 2, "mode", 6),
					Witnesses: []string{"child-died-during-its-start"}, Deadline: 60 * time.Minute, ReplayAttempts: 8},
				{Name: "parent-restarted-then-stopped", Pkg: "actor", Func: "ZZ_C08", Preempt: 1, Params: pm("D", 1, "F", 2, "mode", 4),
					Witnesses: []string{"parent-restarted-with-children", "app-context-cancelled-before-shutdown", "duplicate-spawn-of-a-live-child"}, Deadline: 60 * time.Minute, ReplayAttempts: 8},
				// deeper and wider trees: a deterministic base schedule with up to P preemptions at message boundaries
				{Name: "tree-depth-3-at-message-boundaries", Pkg: "actor", Func: "ZZ_C08", Preempt: tierSel(tier, 4, 8), Params: pm("D", 3, "F", 2, "mode", 0, "ZZMARKONLY", 1, "ZZDETSCHED", 1),
					Witnesses: []string{"third-party-poisons-child-during-shutdown"}, Deadline: 30 * time.Minute, ReplayAttempts: 8},
				{Name: "tree-fan-out-3-at-message-boundaries", Pkg: "actor", Func: "ZZ_C08", Preempt: tierSel(tier, 4, 8), Params: pm("D", 2, "F", 3, "mode", 0, "ZZMARKONLY", 1, "ZZDETSCHED", 1),
					Witnesses: []string{"third-party-poisons-child-during-shutdown"}, Deadline: 30 * time.Minute, ReplayAttempts: 8},
				{Name: "busy-grandchildren-at-message-boundaries", Pkg: "actor", Func: "ZZ_C08", Preempt: tierSel(tier, 4, 8), Params: pm("D", 2, "F", 2, "mode", 3, "ZZMARKONLY", 1, "ZZDETSCHED", 1),
					Witnesses: []string{"child-busy-when-parent-stops"}, Deadline: 30 * time.Minute, ReplayAttempts: 8},
				{Name: "restarted-parent-of-a-depth-2-tree-at-message-boundaries", Pkg: "actor", Func: "ZZ_C08", Preempt: tierSel(tier, 4, 8), Params: pm("D", 2, "F", 2, "mode", 4, "ZZMARKONLY", 1, "ZZDETSCHED", 1),
					Witnesses: []string{"parent-restarted-with-children"}, Deadline: 30 * time.Minute, ReplayAttempts: 8},
			}
		},
		Bounds: func(tier string) string {
			return fmt.Sprintf("trees of depth 3 x fan-out 2 and depth 2 x fan-out 3 (15 and 13 actors) under a deterministic base schedule with up to "+fmt.Sprint(tierSel(tier, 4, 8))+" preemptions at message boundaries (the start of every actor message handling); tree of depth 1 and fan-out 2 with real inboxes at synchronisation granularity; phase 1: optionally one child is poisoned by a third party and has stopped, then Children() is probed; phase 2: the root is stopped or poisoned, optionally while a third party poisons one child concurrently, or while one child panics (once) in its Stopped handler; preemption bound %d. Second harness: a third party poisons a child, which asks the root for a replacement under the same name and id from inside its Stopped handler (the root may handle the request while the old incarnation is still finishing); afterwards Children() lists the live replacement and a shutdown of the root takes it down; preemption bound 2. Third harness: the root is spawned WithContext(app context), may panic once on a user message and be restarted before Children() is probed, and the app context may be cancelled before the root is stopped or poisoned; preemption bound 1. Fourth harness: the root also spawns a child that panics in Started with no restart budget (it terminates during its own start): Children() lists only the live children, shutdown completes", tierSel(tier, 1, 2))
		},
		Outside:     []string{"children that crash on user messages during the shutdown", "deeper / wider trees at synchronisation granularity (depth 2 did not finish within 10 minutes; depth 3 and fan-out 3 are explored at message-boundary granularity only: one deterministic base schedule plus bounded preemptions at the start of message handlings)", "map iteration order of the children map: one order explored symbolically (native replays see Go's random order, hence several replay attempts)"},
		Assumptions: thrAssume("bare engine, real process/Inbox/Context/SafeMap; node receivers record Stopped and check their descendants at that instant; the stop context's cancellation instant is observed through the context model's OnCancel hook"),
	})

	reg(&PropSpec{
		ID: "C17",
		Harnesses: func(tier string) []HarnessSpec {
			return []HarnessSpec{{Name: "two-nodes-contract-transport", Pkg: "remote", Func: "ZZ_C17", Preempt: 0,
				Params:    pm("K", tierSel(tier, 2, 3), "TLS", 1, "EMPTY", 1, "ZZMAXALLOC", 1100000, "ZZDETSCHED", 1),
				Witnesses: []string{"delivered", "dead-lettered", "burst", "peer-down", "peer-up", "reply", "unreachable-and-connected-in-one-history", "tls-configured", "sender-is-a-target-on-the-peer", "empty-message"}, Deadline: 200 * time.Minute},
				{Name: "burst-order-under-message-boundary-interleavings", Pkg: "remote", Func: "ZZ_C17_Order", Preempt: tierSel(tier, 3, 4),
					Params:    pm("M", tierSel(tier, 4, 5), "WARM", 1, "ZZMAXALLOC", 1100000, "ZZDETSCHED", 1, "ZZMARKONLY", 1),
					Witnesses: []string{"burst-delivered-in-order", "connection-established-before-the-burst"}, Deadline: 60 * time.Minute}}
		},
		Bounds: func(tier string) string {
			return fmt.Sprintf("two nodes A and B; quiescent histories of %d operations (send A->B: to one of 2 targets with or without sender, or relayed on behalf of an actor on B that is itself a target, or an empty message that serialises to zero bytes; burst of two sends; B's reader consumes what has arrived; B comes up / becomes reachable; B becomes unreachable and its connections break; B sends to an actor on A), B initially up or not started, both nodes configured with or without a TLS config (TLS itself is not modelled; tls.Dial keeps its real shape: a concrete *Conn that is nil on failure); then Start twice, Stop().Wait(), Stop again, Stop before Start; one schedule per history (deterministic scheduler), payload = remote.TestMessage with one data byte; order harness: one goroutine sends %d numbered messages to one target on B (connection established beforehand by an earlier message, or by the burst itself), interleaved with A's router and writer actors at message boundaries with at most %d preemptions", tierSel(tier, 2, 3), tierSel(tier, 4, 5), tierSel(tier, 3, 4))
		},
		Outside: []string{
			"REDUCED SCOPE - real TCP, TLS, the DRPC library (framing, its goroutines, flow control) and the OS are replaced by a contract transport: a dial succeeds exactly when the peer serves and is reachable, frames on an established connection arrive once and in order, a broken connection loses what was not yet read. That TCP+DRPC honour this contract is assumed, not checked",
			"interleavings: in the history harness every operation is followed by quiescence and the scheduler is deterministic, so concurrent senders and timing-dependent batch formation beyond the two-message burst are outside; the order harness interleaves ONE sender goroutine with the router and writer actors of the sending node at message boundaries only (start of every actor message handling, between two sends), within the preemption bound - preemption in the middle of a message handler, several concurrent senders and several targets are outside",
			"wall-clock behaviour of the 3 dial retries and the idle deadline (time.Sleep is a model)",
			"more than two nodes / peer addresses, longer histories",
			"protobuf reflection: ProtoSerializer's three methods are modelled by the message's own generated VT codec and a registry of the module's message types",
		},
		Assumptions: append([]string{"contract transport models: /verif/rt/zzshim/{net,tls,drpcconn,drpcmux,drpcserver}; protobuf runtime model: engine/protomodel.go", "real code executed: Remote.Start/Stop/Send, streamRouter, streamWriter (Start/init/Invoke/Shutdown, real Inbox and goroutines), streamReader.Receive, generated drpc client/stream wrappers, Envelope/Message/PID/TestMessage VT codec, Engine.send/SendLocal/Spawn/Registry"}, commonAssumptions...),
	})

	reg(&PropSpec{
		ID: "C19",
		Harnesses: func(tier string) []HarnessSpec {
			return []HarnessSpec{{Name: "multi-agent-history", Pkg: "cluster", Func: "ZZ_C19", Preempt: 0, Params: pm("N", tierSel(tier, 2, 3), "K", 3, "ROT", 1),
				Witnesses: []string{"remote-activation", "duplicate-activation", "deactivate", "join-with-active-actors", "leave-with-hosted-actor", "cluster-spawn", "deactivate-of-an-inactive-actor"}, Deadline: 60 * time.Minute},
				// one concrete history (no symbolic input): a joiner learns a table of several hundred active actors
				{Name: "joiner-learns-many-active-actors", Pkg: "cluster", Func: "ZZ_C19_Many", Preempt: 0, Params: pm("M", tierSel(tier, 300, 900)),
					Witnesses: []string{"joiner-learned-many-active-actors"}, Deadline: 20 * time.Minute}}
		},
		Bounds: func(tier string) string {
			return fmt.Sprintf("%d nodes, each registering kind 'a' or not (symbolic), the last one joining later; quiescent histories of 3 operations (activate a/x or a/y from any member with the select function picking any offered member and returning it either as the offered pointer or as a Member value of its own (symbolic), deactivate any active actor from any member, late join, leave of a member other than node 0, a Cluster.Spawn-style announcement of an actor ab/z (kind name prefix-related to 'a') hosted on any member whatever its kinds, Deactivate of a PID that is not active; operation symbolic), notifications delivered in every arrival order before the next operation; plus one concrete history in which a member whose agent knows %d active actors is joined by a second member that must learn them all", tierSel(tier, 2, 3), tierSel(tier, 300, 900))
		},
		Outside:     []string{"non-quiescent histories (operations overlapping their notifications)", "Cluster.Activate/GetActiveByID request plumbing: the agents are driven by the same messages those methods send", "Cluster.Spawn's own plumbing (Members() request): the harness spawns on the node's engine and sends the same Activation notifications", "more kinds / ids / members / operations", "SelectRandomMember (a harness select function picks every offered member instead)"},
		Assumptions: seqAssume("each node: real Agent on a bare engine; network: synchronous in-memory Remoter delivering to the target node's registry; ActivationRequest/activate/getActive are handled at once (their senders block on them), all other agent messages are queued and drained in a harness-chosen order; activated actors are real processes spawned by Engine.Spawn (preemption bound 0: their inbox workers run when the harness blocks or quiesces)"),
	})
}
