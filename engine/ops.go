package main

import (
	"fmt"
	"go/constant"
	"go/token"
	"go/types"
	"math"

	"golang.org/x/tools/go/ssa"
)

func constString(c *ssa.Const) Value {
	if c.Value.Kind() == constant.String {
		return constant.StringVal(c.Value)
	}
	return string(rune(c.Int64()))
}

// ---- strings ----

func (e *Exec) symOf(v Value) *SymStr {
	switch v := v.(type) {
	case *SymStr:
		return v
	case string:
		b := make([]*Term, len(v))
		for i := 0; i < len(v); i++ {
			b[i] = e.st.Const(8, uint64(v[i]))
		}
		return &SymStr{b}
	}
	panic(fmt.Sprintf("symOf %T", v))
}

// normStr demotes a SymStr whose bytes are all constants to a Go string.
func normStr(s *SymStr) Value {
	for _, b := range s.b {
		if !b.IsConst() {
			return s
		}
	}
	bs := make([]byte, len(s.b))
	for i, b := range s.b {
		bs[i] = byte(b.val)
	}
	return string(bs)
}

func strLen(v Value) int {
	switch v := v.(type) {
	case string:
		return len(v)
	case *SymStr:
		return len(v.b)
	}
	panic(fmt.Sprintf("strLen %T", v))
}

func (e *Exec) strEq(x, y Value) *Term {
	xs, xok := x.(string)
	ys, yok := y.(string)
	if xok && yok {
		return e.st.Bool(xs == ys)
	}
	if strLen(x) != strLen(y) {
		return e.st.False
	}
	a, b := e.symOf(x), e.symOf(y)
	cs := make([]*Term, len(a.b))
	for i := range a.b {
		cs[i] = e.st.Eq(a.b[i], b.b[i])
	}
	return e.st.And(cs...)
}

// strLess: lexicographic comparison, symbolic bytes allowed.
func (e *Exec) strLess(x, y Value) *Term {
	xs, xok := x.(string)
	ys, yok := y.(string)
	if xok && yok {
		return e.st.Bool(xs < ys)
	}
	a, b := e.symOf(x), e.symOf(y)
	n := len(a.b)
	if len(b.b) < n {
		n = len(b.b)
	}
	// res = a[0]<b[0] || (a[0]==b[0] && (...)) ; base: len(a)<len(b)
	res := e.st.Bool(len(a.b) < len(b.b))
	for i := n - 1; i >= 0; i-- {
		res = e.st.Or(e.st.App(OpULt, 0, a.b[i], b.b[i]), e.st.And(e.st.Eq(a.b[i], b.b[i]), res))
	}
	return res
}

// ---- integers ----

// concreteInt returns the concrete value of an integer term, forking over its
// feasible values if it is symbolic.
func (e *Exec) concreteInt(fr *frame, t *Term, signed bool) int64 {
	if !t.IsConst() {
		t = e.concretize(t)
	}
	if signed {
		return int64(signExt(t.val, t.w))
	}
	return int64(t.val)
}

// indexIn checks 0 <= idx < n (panicking in the target otherwise) and
// returns the concrete index.
func (e *Exec) indexIn(fr *frame, idx *Term, signed bool, n int) int {
	st := e.st
	if idx.IsConst() {
		v := int64(idx.val)
		if signed {
			v = int64(signExt(idx.val, idx.w))
		}
		if v < 0 || v >= int64(n) || (!signed && idx.val >= uint64(n)) {
			fr.rtPanic(fmt.Sprintf("index out of range [%d] with length %d", v, n))
		}
		return int(v)
	}
	// in range?  (unsigned compare covers negative values of signed idx)
	var inr *Term
	if n == 0 {
		inr = st.False
	} else {
		inr = st.App(OpULt, 0, idx, st.Const(idx.w, uint64(n)))
		if idx.w < 64 && uint64(n) > mask(idx.w) {
			inr = st.True
		}
	}
	if !e.branchT(inr) {
		fr.rtPanic(fmt.Sprintf("index out of range [symbolic] with length %d", n))
	}
	c := e.concretize(idx)
	return int(c.val)
}

func (e *Exec) unop(fr *frame, instr *ssa.UnOp, x Value) Value {
	st := e.st
	switch instr.Op {
	case token.MUL: // load
		p := x.(*Value)
		if p == nil {
			fr.rtPanic("invalid memory address or nil pointer dereference")
		}
		e.raceRead(fr, p)
		e.materialise(p)
		return copyVal(*p)
	case token.SUB:
		switch x := x.(type) {
		case *Term:
			return st.App(OpNeg, x.w, x)
		case float64:
			return -x
		}
	case token.NOT:
		return st.Not(x.(*Term))
	case token.XOR:
		t := x.(*Term)
		return st.App(OpBVNot, t.w, t)
	case token.ARROW:
		v, ok := e.chanRecv(fr, x.(*chanV), instr.X.Type().Underlying().(*types.Chan).Elem())
		if instr.CommaOk {
			return tuple{v, st.Bool(ok)}
		}
		return v
	}
	panic(fmt.Sprintf("unop %s on %T", instr.Op, x))
}

func (e *Exec) binop(fr *frame, op token.Token, tx, ty types.Type, x, y Value) Value {
	st := e.st
	switch op {
	case token.EQL:
		return e.equals(tx, x, y)
	case token.NEQ:
		return st.Not(e.equals(tx, x, y))
	}
	if isString(tx) {
		switch op {
		case token.ADD:
			xs, xok := x.(string)
			ys, yok := y.(string)
			if xok && yok {
				return xs + ys
			}
			a, b := e.symOf(x), e.symOf(y)
			return normStr(&SymStr{append(append([]*Term(nil), a.b...), b.b...)})
		case token.LSS:
			return e.strLess(x, y)
		case token.GTR:
			return e.strLess(y, x)
		case token.LEQ:
			return st.Not(e.strLess(y, x))
		case token.GEQ:
			return st.Not(e.strLess(x, y))
		}
	}
	if isFloat(tx) {
		a, b := x.(float64), y.(float64)
		switch op {
		case token.ADD:
			return a + b
		case token.SUB:
			return a - b
		case token.MUL:
			return a * b
		case token.QUO:
			return a / b
		case token.LSS:
			return st.Bool(a < b)
		case token.LEQ:
			return st.Bool(a <= b)
		case token.GTR:
			return st.Bool(a > b)
		case token.GEQ:
			return st.Bool(a >= b)
		}
	}
	if isBool(tx) {
		a, b := x.(*Term), y.(*Term)
		switch op {
		case token.AND, token.LAND:
			return st.And(a, b)
		case token.OR, token.LOR:
			return st.Or(a, b)
		}
	}
	w, signed, ok := intInfo(tx)
	if !ok {
		panic(fmt.Sprintf("binop %s on %s", op, tx))
	}
	a, b := x.(*Term), y.(*Term)
	switch op {
	case token.ADD:
		return st.App(OpAdd, w, a, b)
	case token.SUB:
		return st.App(OpSub, w, a, b)
	case token.MUL:
		return st.App(OpMul, w, a, b)
	case token.QUO, token.REM:
		if b.IsConst() {
			if b.val == 0 {
				fr.rtPanic("integer divide by zero")
			}
		} else if e.branchT(st.Eq(b, st.Const(w, 0))) {
			fr.rtPanic("integer divide by zero")
		}
		switch {
		case op == token.QUO && signed:
			return st.App(OpSDiv, w, a, b)
		case op == token.QUO:
			return st.App(OpUDiv, w, a, b)
		case signed:
			return st.App(OpSRem, w, a, b)
		default:
			return st.App(OpURem, w, a, b)
		}
	case token.AND:
		return st.App(OpAnd, w, a, b)
	case token.OR:
		return st.App(OpOr, w, a, b)
	case token.XOR:
		return st.App(OpXor, w, a, b)
	case token.AND_NOT:
		return st.App(OpAnd, w, a, st.App(OpBVNot, w, b))
	case token.SHL, token.SHR:
		_, ysigned, _ := intInfo(ty)
		if ysigned {
			neg := st.App(OpSLt, 0, b, st.Const(b.w, 0))
			if neg.IsConst() {
				if neg.val != 0 {
					fr.rtPanic("negative shift amount")
				}
			} else if e.branchT(neg) {
				fr.rtPanic("negative shift amount")
			}
		}
		// bring the count to width w, saturating
		var cnt *Term
		var big *Term = st.False
		if b.w > w {
			big = st.Not(st.App(OpULt, 0, b, st.Const(b.w, uint64(w))))
			cnt = st.Extract(b, w-1, 0)
		} else {
			cnt = st.ZExt(b, w)
		}
		var r *Term
		switch {
		case op == token.SHL:
			r = st.App(OpShl, w, a, cnt)
			if big != st.False {
				r = st.Ite(big, st.Const(w, 0), r)
			}
		case signed:
			r = st.App(OpAShr, w, a, cnt)
			if big != st.False {
				r = st.Ite(big, st.App(OpAShr, w, a, st.Const(w, uint64(w-1))), r)
			}
		default:
			r = st.App(OpLShr, w, a, cnt)
			if big != st.False {
				r = st.Ite(big, st.Const(w, 0), r)
			}
		}
		return r
	case token.LSS:
		if signed {
			return st.App(OpSLt, 0, a, b)
		}
		return st.App(OpULt, 0, a, b)
	case token.LEQ:
		if signed {
			return st.App(OpSLe, 0, a, b)
		}
		return st.App(OpULe, 0, a, b)
	case token.GTR:
		if signed {
			return st.App(OpSLt, 0, b, a)
		}
		return st.App(OpULt, 0, b, a)
	case token.GEQ:
		if signed {
			return st.App(OpSLe, 0, b, a)
		}
		return st.App(OpULe, 0, b, a)
	}
	panic(fmt.Sprintf("binop %s on %s", op, tx))
}

// equals implements == for any comparable pair of values of static type t.
func (e *Exec) equals(t types.Type, x, y Value) *Term {
	st := e.st
	switch x := x.(type) {
	case *Term:
		return st.Eq(x, y.(*Term))
	case string, *SymStr:
		return e.strEq(x, y)
	case float64:
		return st.Bool(x == y.(float64))
	case *Value:
		return st.Bool(x == y.(*Value))
	case *mapV:
		return st.Bool(x == y.(*mapV))
	case *chanV:
		return st.Bool(x == y.(*chanV))
	case []Value:
		// only comparison with nil is legal
		ys := y.([]Value)
		return st.Bool((x == nil) == (ys == nil) && (x == nil || ys == nil))
	case *ssa.Function:
		switch y := y.(type) {
		case *ssa.Function:
			return st.Bool(x == y)
		case *closure:
			return st.Bool(false)
		}
	case *closure:
		switch y := y.(type) {
		case *closure:
			return st.Bool(x == y)
		default:
			return st.Bool(false)
		}
	case iface:
		yi := y.(iface)
		if x.t == nil || yi.t == nil {
			return st.Bool(x.t == nil && yi.t == nil)
		}
		_, xo := x.t.(*opaqueType)
		_, yo := yi.t.(*opaqueType)
		if xo || yo {
			if xo && yo {
				return st.Bool(x.v.(*Value) == yi.v.(*Value))
			}
			return st.False
		}
		if x.t == e.w.runtimeErr || yi.t == e.w.runtimeErr {
			return st.Bool(x.t == yi.t && x.v == yi.v)
		}
		if !types.Identical(x.t, yi.t) {
			return st.False
		}
		if !types.Comparable(x.t) {
			panic(targetPanic{v: iface{t: e.w.runtimeErr, v: rtErr{"comparing uncomparable type " + x.t.String()}}})
		}
		return e.equals(x.t, x.v, yi.v)
	case structV:
		ys := y.(structV)
		cs := make([]*Term, 0, len(x))
		var stt *types.Struct
		if t != nil {
			stt, _ = t.Underlying().(*types.Struct)
		}
		for i := range x {
			if stt != nil && stt.Field(i).Name() == "_" {
				continue
			}
			var ft types.Type
			if stt != nil {
				ft = stt.Field(i).Type()
			}
			cs = append(cs, e.equals(ft, x[i], ys[i]))
		}
		return st.And(cs...)
	case arrayV:
		ys := y.(arrayV)
		cs := make([]*Term, len(x))
		for i := range x {
			cs[i] = e.equals(nil, x[i], ys[i])
		}
		return st.And(cs...)
	case *opaque:
		yo, _ := y.(*opaque)
		return st.Bool(x == yo)
	case rtErr:
		yo, ok := y.(rtErr)
		return st.Bool(ok && x == yo)
	case nil:
		return st.Bool(y == nil)
	}
	panic(fmt.Sprintf("equals: %T vs %T", x, y))
}

func (e *Exec) conv(fr *frame, dst, src types.Type, x Value) Value {
	st := e.st
	ud, us := dst.Underlying(), src.Underlying()
	switch ud := ud.(type) {
	case *types.Pointer, *types.Chan, *types.Struct, *types.Map, *types.Signature, *types.Array, *types.Interface:
		return x
	case *types.Slice:
		if isString(us) {
			// string -> []byte / []rune
			eb := basicOf(ud.Elem())
			if eb != nil && eb.Kind() == types.Uint8 {
				s := e.symOf(x)
				out := make([]Value, len(s.b))
				for i, b := range s.b {
					out[i] = b
				}
				return out
			}
			if xs, ok := x.(string); ok {
				rs := []rune(xs)
				out := make([]Value, len(rs))
				for i, r := range rs {
					out[i] = st.Const(32, uint64(r))
				}
				return out
			}
			e.unsupported("[]rune of symbolic string")
		}
		return x
	case *types.Basic:
		if isString(ud) {
			switch xv := x.(type) {
			case string, *SymStr:
				return xv
			case []Value:
				// []byte or []rune -> string
				el := us.(*types.Slice).Elem()
				if basicOf(el).Kind() == types.Uint8 {
					b := make([]*Term, len(xv))
					for i, v := range xv {
						b[i] = v.(*Term)
					}
					return normStr(&SymStr{b})
				}
				rs := make([]rune, len(xv))
				for i, v := range xv {
					t := v.(*Term)
					if !t.IsConst() {
						e.unsupported("string of symbolic runes")
					}
					rs[i] = rune(t.val)
				}
				return string(rs)
			case *Term:
				if !xv.IsConst() {
					e.unsupported("string(int) of symbolic value")
				}
				return string(rune(int64(signExt(xv.val, xv.w))))
			}
		}
		if w, _, ok := intInfo(ud); ok {
			switch xv := x.(type) {
			case *Term:
				_, ssigned, _ := intInfo(us)
				return st.Resize(xv, w, ssigned)
			case float64:
				return st.Const(w, uint64(int64(xv)))
			case *Value:
				// unsafe.Pointer -> uintptr
				e.unsupported("pointer to integer conversion")
			}
		}
		if isFloat(ud) {
			switch xv := x.(type) {
			case float64:
				if ud.Kind() == types.Float32 {
					return float64(float32(xv))
				}
				return xv
			case *Term:
				if !xv.IsConst() {
					xv = e.concretize(xv)
				}
				_, ssigned, _ := intInfo(us)
				if ssigned {
					return float64(int64(signExt(xv.val, xv.w)))
				}
				return float64(xv.val)
			}
		}
		if isBool(ud) {
			return x
		}
		if ud.Kind() == types.UnsafePointer {
			return x
		}
	}
	panic(fmt.Sprintf("conv %s -> %s (%T)", src, dst, x))
}

func (e *Exec) slice(fr *frame, instr *ssa.Slice, x, lo, hi, max Value) Value {
	var ln, cp int
	switch xv := x.(type) {
	case string:
		ln, cp = len(xv), len(xv)
	case *SymStr:
		ln, cp = len(xv.b), len(xv.b)
	case []Value:
		ln, cp = len(xv), cap(xv)
	case *Value:
		if xv == nil {
			fr.rtPanic("slice of nil array pointer")
		}
		a := (*xv).(arrayV)
		ln, cp = len(a), len(a)
	}
	l, h, m := 0, ln, cp
	bound := func(v Value, def int, val ssa.Value) int {
		if v == nil {
			return def
		}
		_, signed, _ := intInfo(val.Type())
		return int(e.concreteInt(fr, v.(*Term), signed))
	}
	l = bound(lo, 0, instr.Low)
	h = bound(hi, ln, instr.High)
	m = bound(max, cp, instr.Max)
	_, isStr := x.(string)
	_, isSym := x.(*SymStr)
	if isStr || isSym {
		if l < 0 || h < l || h > ln {
			fr.rtPanic(fmt.Sprintf("slice bounds out of range [%d:%d] with length %d", l, h, ln))
		}
	} else if l < 0 || h < l || m < h || m > cp {
		fr.rtPanic(fmt.Sprintf("slice bounds out of range [%d:%d:%d] with capacity %d", l, h, m, cp))
	}
	switch xv := x.(type) {
	case string:
		return xv[l:h]
	case *SymStr:
		return normStr(&SymStr{xv.b[l:h]})
	case []Value:
		if xv == nil {
			return []Value(nil)
		}
		return xv[l:h:m]
	case *Value:
		a := (*xv).(arrayV)
		return []Value(a)[l:h:m]
	}
	panic(fmt.Sprintf("slice of %T", x))
}

// ---- maps ----

func (e *Exec) mapFind(fr *frame, m *mapV, k Value) int {
	if m == nil {
		return -1
	}
	for i := range m.entries {
		eq := e.equals(m.keyT, m.entries[i].k, k)
		if eq.IsConst() {
			if eq.val != 0 {
				return i
			}
			continue
		}
		if e.branch(eq) {
			return i
		}
	}
	return -1
}

func (e *Exec) mapSet(fr *frame, m *mapV, k, v Value) {
	e.raceMapWrite(fr, m)
	if i := e.mapFind(fr, m, k); i >= 0 {
		m.entries[i].v = v
		return
	}
	m.entries = append(m.entries, mapEntry{k, v})
}

func (e *Exec) mapDelete(fr *frame, m *mapV, k Value) {
	if m == nil {
		return
	}
	e.raceMapWrite(fr, m)
	if i := e.mapFind(fr, m, k); i >= 0 {
		n := make([]mapEntry, 0, len(m.entries)-1)
		n = append(n, m.entries[:i]...)
		n = append(n, m.entries[i+1:]...)
		m.entries = n
	}
}

func (e *Exec) lookup(fr *frame, instr *ssa.Lookup, x, idx Value) Value {
	switch xv := x.(type) {
	case *mapV:
		e.raceMapRead(fr, xv)
		vt := instr.X.Type().Underlying().(*types.Map).Elem()
		var v Value
		ok := false
		if i := e.mapFind(fr, xv, idx); i >= 0 {
			v, ok = copyVal(xv.entries[i].v), true
		} else {
			v = e.zero(vt)
		}
		if instr.CommaOk {
			return tuple{v, e.st.Bool(ok)}
		}
		return v
	case string:
		_, signed, _ := intInfo(instr.Index.Type())
		i := e.indexIn(fr, idx.(*Term), signed, len(xv))
		return e.st.Const(8, uint64(xv[i]))
	case *SymStr:
		_, signed, _ := intInfo(instr.Index.Type())
		i := e.indexIn(fr, idx.(*Term), signed, len(xv.b))
		return xv.b[i]
	}
	panic(fmt.Sprintf("lookup on %T", x))
}

func (e *Exec) rangeIter(fr *frame, x Value, t types.Type) Value {
	switch xv := x.(type) {
	case *mapV:
		it := &mapIter{m: xv}
		if xv != nil {
			e.raceMapRead(fr, xv)
			it.snap = append([]mapEntry(nil), xv.entries...)
			if n := len(it.snap); e.mapRotate > 0 && n > 1 {
				// Go iterates a small map from a random slot and wraps around: a rotation of the slot order
				k := e.mapRotate % n
				it.snap = append(append([]mapEntry(nil), it.snap[k:]...), it.snap[:k]...)
			}
		}
		return it
	case string:
		return &strIter{s: xv}
	case *SymStr:
		e.unsupported("range over symbolic string")
	}
	panic(fmt.Sprintf("range over %T", x))
}

func (e *Exec) iterNext(fr *frame, instr *ssa.Next, it Value) Value {
	st := e.st
	switch it := it.(type) {
	case *mapIter:
		tt := instr.Type().(*types.Tuple)
		for {
			remaining := len(it.snap) - it.i
			if remaining <= 0 {
				return tuple{st.False, e.zeroOrNil(tt.At(1).Type()), e.zeroOrNil(tt.At(2).Type())}
			}
			pick := it.i
			if e.mapAllOrders && remaining > 1 {
				pick = it.i + e.choose(remaining, 'm')
			}
			it.snap[it.i], it.snap[pick] = it.snap[pick], it.snap[it.i]
			ent := it.snap[it.i]
			it.i++
			// Go semantics: an entry deleted during iteration is not produced.
			live := false
			for _, cur := range it.m.entries {
				if sameKeyIdentity(cur.k, ent.k) {
					live = true
					ent.v = cur.v
					break
				}
			}
			if !live {
				continue
			}
			return tuple{st.True, ent.k, copyVal(ent.v)}
		}
	case *strIter:
		if it.i >= len(it.s) {
			return tuple{st.False, st.Const(64, 0), st.Const(32, 0)}
		}
		i := it.i
		r := rune(0)
		n := 0
		for j, c := range it.s[i:] {
			if j == 0 {
				r = c
				n = len(string(c))
				if c == 0xFFFD {
					n = 1
				}
				break
			}
		}
		it.i += n
		return tuple{st.True, st.Const(64, uint64(i)), st.Const(32, uint64(r))}
	}
	panic(fmt.Sprintf("next on %T", it))
}

func (e *Exec) zeroOrNil(t types.Type) Value {
	if b, ok := t.(*types.Basic); ok && b.Kind() == types.Invalid {
		return nil
	}
	return e.zero(t)
}

// sameKeyIdentity: is this the same stored key object/term (not semantic equality).
func sameKeyIdentity(a, b Value) bool {
	switch a := a.(type) {
	case *Term:
		bt, ok := b.(*Term)
		return ok && a == bt
	case string:
		bs, ok := b.(string)
		return ok && a == bs
	case *SymStr:
		bs, ok := b.(*SymStr)
		return ok && a == bs
	case *Value:
		bp, ok := b.(*Value)
		return ok && a == bp
	case iface:
		bi, ok := b.(iface)
		return ok && a.t == bi.t && sameKeyIdentity(a.v, bi.v)
	case structV:
		bs, ok := b.(structV)
		if !ok || len(a) != len(bs) {
			return false
		}
		for i := range a {
			if !sameKeyIdentity(a[i], bs[i]) {
				return false
			}
		}
		return true
	}
	return false
}

func (e *Exec) typeAssert(fr *frame, instr *ssa.TypeAssert, itf iface) Value {
	var v Value
	ok := false
	if tag, isTag := itf.t.(*protoTag); isTag {
		// a value of the protobuf runtime model: it has the interfaces of protoreflect its kind names
		if n, isN := instr.AssertedType.(*types.Named); isN && tag.hasInterface(n.Obj().Name()) {
			v, ok = itf, true
		}
	} else if idst, isI := instr.AssertedType.Underlying().(*types.Interface); isI {
		if itf.t != nil && e.implements(itf.t, idst) {
			v, ok = itf, true
		}
	} else if _, isO := itf.t.(*opaqueType); isO {
	} else if itf.t != nil && types.Identical(itf.t, instr.AssertedType) {
		v, ok = copyVal(itf.v), true
	}
	if instr.CommaOk {
		if !ok {
			v = e.zero(instr.AssertedType)
		}
		return tuple{v, e.st.Bool(ok)}
	}
	if !ok {
		have := "nil"
		if itf.t != nil {
			have = itf.t.String()
		}
		panic(targetPanic{v: iface{t: e.w.runtimeErr, v: rtErr{fmt.Sprintf("interface conversion: interface is %s, not %s", have, instr.AssertedType)}}, stack: fr.stack()})
	}
	return v
}

func (e *Exec) implements(t types.Type, it *types.Interface) bool {
	if t == e.w.runtimeErr {
		// runtime.Error / error
		for i := 0; i < it.NumMethods(); i++ {
			n := it.Method(i).Name()
			if n != "Error" && n != "RuntimeError" {
				return false
			}
		}
		return true
	}
	if _, ok := t.(*opaqueType); ok {
		return true
	}
	return types.Implements(t, it)
}

// opaqueType is the dynamic type tag of opaque error values.
type opaqueType struct{ types.Type }

func (e *Exec) callBuiltin(fr *frame, pos token.Pos, fn *ssa.Builtin, args []Value) Value {
	st := e.st
	switch fn.Name() {
	case "append":
		if len(args) == 1 {
			return args[0]
		}
		a0 := args[0].([]Value)
		switch a1 := args[1].(type) {
		case []Value:
			if len(a1) == 0 {
				return a0
			}
			cp := make([]Value, len(a1))
			for i, v := range a1 {
				cp[i] = copyVal(v)
			}
			return append(a0, cp...)
		case string, *SymStr:
			s := e.symOf(a1)
			for _, b := range s.b {
				a0 = append(a0, b)
			}
			return a0
		}
	case "copy":
		dst := args[0].([]Value)
		switch src := args[1].(type) {
		case []Value:
			n := len(dst)
			if len(src) < n {
				n = len(src)
			}
			tmp := make([]Value, n)
			for i := 0; i < n; i++ {
				tmp[i] = copyVal(src[i])
			}
			for i := 0; i < n; i++ {
				assignInto(&dst[i], tmp[i])
			}
			return st.Const(64, uint64(n))
		case string, *SymStr:
			s := e.symOf(src)
			n := len(dst)
			if len(s.b) < n {
				n = len(s.b)
			}
			for i := 0; i < n; i++ {
				dst[i] = s.b[i]
			}
			return st.Const(64, uint64(n))
		}
	case "close":
		e.chanClose(fr, args[0].(*chanV))
		return nil
	case "delete":
		e.mapDelete(fr, args[0].(*mapV), args[1])
		return nil
	case "print", "println":
		return nil
	case "len":
		switch x := args[0].(type) {
		case string:
			return st.Const(64, uint64(len(x)))
		case *SymStr:
			return st.Const(64, uint64(len(x.b)))
		case arrayV:
			return st.Const(64, uint64(len(x)))
		case *Value:
			if x == nil {
				return st.Const(64, uint64(fn.Type().(*types.Signature).Params().At(0).Type().Underlying().(*types.Pointer).Elem().Underlying().(*types.Array).Len()))
			}
			return st.Const(64, uint64(len((*x).(arrayV))))
		case []Value:
			return st.Const(64, uint64(len(x)))
		case *mapV:
			if x == nil {
				return st.Const(64, 0)
			}
			e.raceMapRead(fr, x)
			return st.Const(64, uint64(len(x.entries)))
		case *chanV:
			if x == nil {
				return st.Const(64, 0)
			}
			return st.Const(64, uint64(len(x.buf)))
		}
	case "cap":
		switch x := args[0].(type) {
		case arrayV:
			return st.Const(64, uint64(len(x)))
		case []Value:
			return st.Const(64, uint64(cap(x)))
		case *chanV:
			if x == nil {
				return st.Const(64, 0)
			}
			return st.Const(64, uint64(x.cap))
		case *Value:
			return st.Const(64, uint64(len((*x).(arrayV))))
		}
	case "recover":
		return e.doRecover(fr)
	case "min", "max":
		t := fn.Type().(*types.Signature).Params().At(0).Type()
		_, signed, ok := intInfo(t)
		acc := args[0]
		for _, a := range args[1:] {
			if !ok {
				if isFloat(t) {
					x, y := acc.(float64), a.(float64)
					if fn.Name() == "min" {
						acc = math.Min(x, y)
					} else {
						acc = math.Max(x, y)
					}
					continue
				}
				e.unsupported("min/max on %s", t)
			}
			x, y := acc.(*Term), a.(*Term)
			var lt *Term
			if signed {
				lt = st.App(OpSLt, 0, x, y)
			} else {
				lt = st.App(OpULt, 0, x, y)
			}
			if fn.Name() == "min" {
				acc = st.Ite(lt, x, y)
			} else {
				acc = st.Ite(lt, y, x)
			}
		}
		return acc
	case "clear":
		switch x := args[0].(type) {
		case *mapV:
			if x != nil {
				e.raceMapWrite(fr, x)
				x.entries = nil
			}
		case []Value:
			// clear(slice): every element becomes the zero value of the element type
			var elem types.Type
			if sig, ok := fn.Type().(*types.Signature); ok && sig.Params().Len() > 0 {
				if sl, ok := sig.Params().At(0).Type().Underlying().(*types.Slice); ok {
					elem = sl.Elem()
				}
			}
			if elem == nil {
				e.unsupported("clear(slice) of unknown element type")
			}
			for i := range x {
				x[i] = e.zero(elem)
			}
		}
		return nil
	case "ssa:wrapnilchk":
		recv := args[0]
		if p, ok := recv.(*Value); ok && p == nil {
			fr.rtPanic("value method called using nil pointer")
		}
		return recv
	}
	panic(fmt.Sprintf("builtin %s(%T...)", fn.Name(), args[0]))
}

func (e *Exec) doRecover(fr *frame) Value {
	caller := fr
	if caller != nil && !caller.panicking && caller.caller != nil && caller.caller.panicking {
		caller.caller.panicking = false
		p := caller.caller.panicv
		caller.caller.panicv = nil
		switch p := p.(type) {
		case targetPanic:
			e.lastRecovered = &p
			return p.v
		default:
			panic(fmt.Sprintf("unexpected host panic %T in recover: %v", p, p))
		}
	}
	return iface{}
}
