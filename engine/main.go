package main

import (
	"encoding/json"
	"flag"
	"fmt"
	"os"
	"runtime"
	"sort"
	"strconv"
	"strings"
)

func usage() {
	fmt.Fprintln(os.Stderr, `usage:
  gosym run <property> [--tier quick|thorough] [--seed N]
  gosym harness <pkg> <Func> [--preempt N] [--param k=v]... [--trace] [--workers N]
  gosym replay <tape.json>
  gosym view --native|--symbolic --out <dir>
  gosym selftest`)
	os.Exit(2)
}

func main() {
	if len(os.Args) < 2 {
		usage()
	}
	switch os.Args[1] {
	case "harness":
		os.Exit(cmdHarness(os.Args[2:]))
	case "run":
		os.Exit(cmdRun(os.Args[2:]))
	case "replay":
		os.Exit(cmdReplay(os.Args[2:]))
	case "view":
		os.Exit(cmdView(os.Args[2:]))
	case "selftest":
		os.Exit(cmdSelftest(os.Args[2:]))
	default:
		usage()
	}
}

type paramFlag map[string]int

func (p paramFlag) String() string { return "" }
func (p paramFlag) Set(s string) error {
	kv := strings.SplitN(s, "=", 2)
	if len(kv) != 2 {
		return fmt.Errorf("want k=v")
	}
	n, err := strconv.Atoi(kv[1])
	if err != nil {
		return err
	}
	p[kv[0]] = n
	return nil
}

func cmdHarness(args []string) int {
	if len(args) < 2 {
		usage()
	}
	pkg, fn := args[0], args[1]
	defer cleanupScratch()
	fs := flag.NewFlagSet("harness", flag.ExitOnError)
	params := paramFlag{}
	fs.Var(params, "param", "k=v")
	preempt := fs.Int("preempt", 2, "preemption bound")
	trace := fs.Bool("trace", false, "trace calls")
	workers := fs.Int("workers", runtime.NumCPU(), "workers")
	maxPaths := fs.Int("maxpaths", 0, "path limit")
	doReplay := fs.Bool("replay", false, "replay findings natively")
	fs.Parse(args[2:])
	_, w, dropped, err := loadIsolated([]string{pkg})
	for _, f := range dropped {
		fmt.Fprintln(os.Stderr, "left out (does not compile):", f)
	}
	if err != nil {
		fmt.Fprintln(os.Stderr, "load:", err)
		return 2
	}
	h := HarnessSpec{Name: fn, Pkg: pkg, Func: fn, Params: params, Preempt: *preempt, MaxPaths: *maxPaths}
	traceAll = *trace
	st, err := explore(w, h, *workers)
	if err != nil {
		fmt.Fprintln(os.Stderr, "explore:", err)
		return 2
	}
	printStats(st)
	if *doReplay {
		for i := range st.Findings {
			f := &st.Findings[i]
			tp := tapeOf(h, f)
			res, out := replayTape(tp, 1)
			fmt.Printf("replay %s/%s: %s\n%s\n", f.Kind, f.Label, res, out)
		}
	}
	return 0
}

var traceAll bool

func printStats(st *Stats) {
	fmt.Printf("paths=%d states=%d transitions=%d steps=%d queries=%d memo=%d solver=%.2fs wall=%.2fs truncated=%v\n",
		st.Paths, st.States, st.Transitions, st.Steps, st.Queries, st.MemoHits, st.SolverTime.Seconds(), st.Wall.Seconds(), st.Truncated)
	fmt.Printf("outcomes: %v\n", st.Outcomes)
	pm := func(name string, m map[string]int) {
		if len(m) == 0 {
			return
		}
		keys := make([]string, 0, len(m))
		for k := range m {
			keys = append(keys, k)
		}
		sort.Strings(keys)
		fmt.Printf("%s:\n", name)
		for _, k := range keys {
			fmt.Printf("  %6d  %s\n", m[k], k)
		}
	}
	pm("reached", st.Reached)
	pm("unsupported", st.Unsupported)
	pm("unwound", st.Unwound)
	pm("internal", st.Internal)
	pm("inconclusive", st.Inconcl)
	for _, e := range st.SolverErrs {
		fmt.Println("solver-error:", e)
	}
	for i := range st.Findings {
		f := &st.Findings[i]
		b, _ := json.Marshal(f.Nondet)
		fmt.Printf("FINDING %s label=%s tags=%v n=%d detail=%q\n   nondet=%s choices=%v sched=%v\n", f.Kind, f.Label, f.Tags, st.FindingN[findingKey(f)], f.Detail, b, f.Choices, f.Sched)
		if len(f.Stack) > 0 {
			fmt.Printf("   stack: %s\n", strings.Join(f.Stack, " <- "))
		}
	}
}

func cmdView(args []string) int {
	fs := flag.NewFlagSet("view", flag.ExitOnError)
	native := fs.Bool("native", false, "native view")
	_ = fs.Bool("symbolic", false, "symbolic view")
	out := fs.String("out", "", "output dir")
	fs.Parse(args)
	if *out == "" {
		usage()
	}
	v, err := buildView(*native, repoPkgs)
	if err != nil {
		fmt.Fprintln(os.Stderr, err)
		return 2
	}
	os.MkdirAll(*out, 0o755)
	p, err := v.WriteOverlay(*out)
	if err != nil {
		fmt.Fprintln(os.Stderr, err)
		return 2
	}
	fmt.Println(p)
	return 0
}
