package main

// Happens-before race detection (vector clocks) over the executor's cells.
// Plain accesses between two scheduling points of a thread execute
// atomically; this detector reports conflicting accesses that are not ordered
// by happens-before (edges: HBRelease/HBAcquire from the shim primitives,
// `go`, channel operations, Quiesce join).

import (
	"fmt"
	"path/filepath"
	"strings"

	"golang.org/x/tools/go/ssa"
)

type shadow struct {
	wT, wC int   // last plain writer thread / clock
	r      []int // per-thread last plain read clock
	aw, ar []int // per-thread last atomic write / read clock
	wWhere string
}

type raceState struct {
	cells map[interface{}]*shadow
	sync  map[interface{}][]int // release clocks per sync object
	watch bool
	kind  map[*ssa.Function]int // 0 unknown, 1 plain (repository code), 2 atomic (sync/atomic model), 3 ignored (harness, other models)
}

func newRaceState(e *Exec) *raceState {
	rs := &raceState{cells: map[interface{}]*shadow{}, sync: map[interface{}][]int{}, kind: map[*ssa.Function]int{}}
	for _, t := range e.threads {
		if t.vc == nil {
			t.vc = make([]int, 32)
			t.vc[t.id] = 1
		}
	}
	return rs
}

func (rs *raceState) onNewThread(e *Exec, t *thread) {
	t.vc = make([]int, 32)
	if e.cur != nil && e.cur.vc != nil {
		copy(t.vc, e.cur.vc)
		e.cur.vc[e.cur.id]++
	}
	t.vc[t.id] = 1
}

func vcJoin(dst, src []int) {
	for i := range src {
		if src[i] > dst[i] {
			dst[i] = src[i]
		}
	}
}

func (rs *raceState) release(e *Exec, t *thread, obj interface{}) {
	if t == nil || t.vc == nil {
		return
	}
	c := rs.sync[obj]
	if c == nil {
		c = make([]int, 32)
		rs.sync[obj] = c
	}
	vcJoin(c, t.vc)
	t.vc[t.id]++
}

func (rs *raceState) acquire(e *Exec, t *thread, obj interface{}) {
	if t == nil || t.vc == nil {
		return
	}
	if c := rs.sync[obj]; c != nil {
		vcJoin(t.vc, c)
	}
}

func (rs *raceState) joinAll(e *Exec, me *thread) {
	for _, t := range e.threads {
		if t != me && t.done && t.vc != nil {
			vcJoin(me.vc, t.vc)
		}
	}
}

// fnKind classifies the function an access executes in. Accesses made by the
// repository's own code are plain; accesses made inside the sync/atomic model
// are atomic (they never race with each other, but do race with unordered
// plain accesses to the same word); accesses made by harness code (files
// zz_*.go) and inside the other environment models (the mutex's own flag, the
// context model's fields) are not checked - harness receivers declare their
// state with zzrt.RaceAccess instead.
func (rs *raceState) fnKind(fn *ssa.Function) int {
	if fn == nil {
		return 3
	}
	if k, ok := rs.kind[fn]; ok {
		return k
	}
	k := 1
	root := fn
	for root.Parent() != nil {
		root = root.Parent()
	}
	pkgPath := ""
	if root.Pkg != nil {
		pkgPath = root.Pkg.Pkg.Path()
	} else if o := root.Origin(); o != nil && o.Pkg != nil {
		pkgPath = o.Pkg.Pkg.Path()
	}
	switch {
	case strings.HasSuffix(pkgPath, "/zzshim/atomic"):
		k = 2
	case strings.Contains(pkgPath, "/zzshim/") || strings.HasSuffix(pkgPath, "/zzrt"):
		k = 3
	case !strings.HasPrefix(pkgPath, modPath):
		k = 3 // standard library / dependencies executed concretely: not the subject
	default:
		if pos := root.Pos(); pos.IsValid() {
			if strings.HasPrefix(filepath.Base(root.Prog.Fset.Position(pos).Filename), "zz_") {
				k = 3
			}
		}
	}
	rs.kind[fn] = k
	return k
}

func (rs *raceState) access(e *Exec, fr *frame, key interface{}, write bool) {
	switch rs.fnKind(fr.fn) {
	case 3:
		return
	case 2:
		rs.accessK(e, fr, key, write, true)
	default:
		rs.accessK(e, fr, key, write, false)
	}
}

func (rs *raceState) accessK(e *Exec, fr *frame, key interface{}, write, atomic bool) {
	t := fr.th
	if t == nil || t.vc == nil {
		return
	}
	s := rs.cells[key]
	if s == nil {
		s = &shadow{wT: -1, r: make([]int, 32), aw: make([]int, 32), ar: make([]int, 32)}
		rs.cells[key] = s
	}
	where := ""
	if fr.fn != nil {
		where = fr.fn.String()
	}
	kindS := map[bool]string{false: "", true: "atomic "}[atomic]
	// against the last plain write
	if s.wT >= 0 && s.wT != t.id && s.wC > t.vc[s.wT] {
		e.raceFound(fr, fmt.Sprintf("plain write by g%d in %s not ordered before %saccess by g%d in %s", s.wT, s.wWhere, kindS, t.id, where))
	}
	if !atomic {
		// a plain access also conflicts with unordered atomic writes
		for i, c := range s.aw {
			if i != t.id && c > t.vc[i] {
				e.raceFound(fr, fmt.Sprintf("atomic write by g%d not ordered before plain access by g%d in %s", i, t.id, where))
			}
		}
	}
	if write {
		for i, rc := range s.r {
			if i != t.id && rc > t.vc[i] {
				e.raceFound(fr, fmt.Sprintf("plain read by g%d not ordered before %swrite by g%d in %s", i, kindS, t.id, where))
			}
		}
		if !atomic {
			for i, rc := range s.ar {
				if i != t.id && rc > t.vc[i] {
					e.raceFound(fr, fmt.Sprintf("atomic read by g%d not ordered before plain write by g%d in %s", i, t.id, where))
				}
			}
			s.wT, s.wC, s.wWhere = t.id, t.vc[t.id], where
		} else {
			s.aw[t.id] = t.vc[t.id]
		}
	} else if atomic {
		s.ar[t.id] = t.vc[t.id]
	} else {
		s.r[t.id] = t.vc[t.id]
	}
}

func (e *Exec) raceFound(fr *frame, detail string) {
	e.ensureModelQuiet()
	e.addFinding("race", "data-race", detail, e.model, fr.stack())
	e.end("violation-stop", "data-race")
}

func (e *Exec) raceRead(fr *frame, p *Value) {
	if e.race != nil && e.race.watch {
		e.race.access(e, fr, p, false)
	}
}
func (e *Exec) raceWrite(fr *frame, p *Value) {
	if e.race != nil && e.race.watch {
		e.race.access(e, fr, p, true)
	}
}
func (e *Exec) raceMapRead(fr *frame, m *mapV) {
	if e.race != nil && e.race.watch {
		e.race.access(e, fr, m, false)
	}
}
func (e *Exec) raceMapWrite(fr *frame, m *mapV) {
	if e.race != nil && e.race.watch {
		e.race.access(e, fr, m, true)
	}
}

// ---- symbolic clock (time shim) ----

type timerRec struct{}

func (e *Exec) clockNow() *Term {
	if e.clock == nil {
		e.clock = e.st.Const(64, 0)
	}
	return e.clock
}

func (e *Exec) clockAdvance(d *Term) {
	e.clock = e.st.App(OpAdd, 64, e.clockNow(), d)
}
