package main

// Happens-before race detection (vector clocks) over the executor's cells.
// Plain accesses between two scheduling points of a thread execute
// atomically; this detector reports conflicting accesses that are not ordered
// by happens-before (edges: HBRelease/HBAcquire from the shim primitives,
// `go`, channel operations, Quiesce join).

import "fmt"

type shadow struct {
	wT, wC int   // last writer thread / clock
	r      []int // per-thread last read clock
	wWhere string
}

type raceState struct {
	cells map[interface{}]*shadow
	sync  map[interface{}][]int // release clocks per sync object
	watch bool
}

func newRaceState(e *Exec) *raceState {
	rs := &raceState{cells: map[interface{}]*shadow{}, sync: map[interface{}][]int{}}
	for _, t := range e.threads {
		if t.vc == nil {
			t.vc = make([]int, 32)
			t.vc[t.id] = 1
		}
	}
	return rs
}

func (rs *raceState) onNewThread(e *Exec, t *thread) {
	t.vc = make([]int, 32)
	if e.cur != nil && e.cur.vc != nil {
		copy(t.vc, e.cur.vc)
		e.cur.vc[e.cur.id]++
	}
	t.vc[t.id] = 1
}

func vcJoin(dst, src []int) {
	for i := range src {
		if src[i] > dst[i] {
			dst[i] = src[i]
		}
	}
}

func (rs *raceState) release(e *Exec, t *thread, obj interface{}) {
	if t == nil || t.vc == nil {
		return
	}
	c := rs.sync[obj]
	if c == nil {
		c = make([]int, 32)
		rs.sync[obj] = c
	}
	vcJoin(c, t.vc)
	t.vc[t.id]++
}

func (rs *raceState) acquire(e *Exec, t *thread, obj interface{}) {
	if t == nil || t.vc == nil {
		return
	}
	if c := rs.sync[obj]; c != nil {
		vcJoin(t.vc, c)
	}
}

func (rs *raceState) joinAll(e *Exec, me *thread) {
	for _, t := range e.threads {
		if t != me && t.done && t.vc != nil {
			vcJoin(me.vc, t.vc)
		}
	}
}

func (rs *raceState) access(e *Exec, fr *frame, key interface{}, write bool) {
	t := fr.th
	if t == nil || t.vc == nil {
		return
	}
	s := rs.cells[key]
	if s == nil {
		s = &shadow{wT: -1, r: make([]int, 32)}
		rs.cells[key] = s
	}
	where := ""
	if fr.fn != nil {
		where = fr.fn.String()
	}
	if s.wT >= 0 && s.wT != t.id && s.wC > t.vc[s.wT] {
		e.raceFound(fr, fmt.Sprintf("write by g%d in %s not ordered before access by g%d in %s", s.wT, s.wWhere, t.id, where))
	}
	if write {
		for i, rc := range s.r {
			if i != t.id && rc > t.vc[i] {
				e.raceFound(fr, fmt.Sprintf("read by g%d not ordered before write by g%d in %s", i, t.id, where))
			}
		}
		s.wT, s.wC, s.wWhere = t.id, t.vc[t.id], where
	} else {
		s.r[t.id] = t.vc[t.id]
	}
}

func (e *Exec) raceFound(fr *frame, detail string) {
	e.ensureModelQuiet()
	e.addFinding("race", "data-race", detail, e.model, fr.stack())
	e.end("violation-stop", "data-race")
}

func (e *Exec) raceRead(fr *frame, p *Value) {
	if e.race != nil && e.race.watch {
		e.race.access(e, fr, p, false)
	}
}
func (e *Exec) raceWrite(fr *frame, p *Value) {
	if e.race != nil && e.race.watch {
		e.race.access(e, fr, p, true)
	}
}
func (e *Exec) raceMapRead(fr *frame, m *mapV) {
	if e.race != nil && e.race.watch {
		e.race.access(e, fr, m, false)
	}
}
func (e *Exec) raceMapWrite(fr *frame, m *mapV) {
	if e.race != nil && e.race.watch {
		e.race.access(e, fr, m, true)
	}
}

// ---- symbolic clock (time shim) ----

type timerRec struct{}

func (e *Exec) clockNow() *Term {
	if e.clock == nil {
		e.clock = e.st.Const(64, 0)
	}
	return e.clock
}

func (e *Exec) clockAdvance(d *Term) {
	e.clock = e.st.App(OpAdd, 64, e.clockNow(), d)
}
