package main

// Model of the protobuf runtime behind remote.ProtoSerializer. The three
// methods of ProtoSerializer are thin wrappers around proto.Marshal,
// proto.MessageName, protoregistry.GlobalTypes.FindMessageByName and
// proto.Unmarshal, all of which work by reflection and cannot be executed by
// the SSA executor. The model: a message is serialised by its own generated
// MarshalVT, its type name is <go package name>.<type name> (which is what the
// .proto files of this module declare), and Deserialize looks the name up among
// the module's types that have MarshalVT/UnmarshalVT, allocates one and runs its
// generated UnmarshalVT. An unknown name or a value that is not such a message
// behaves as natively (error / failed type assertion).

import (
	"go/types"
	"sort"
	"strings"

	"golang.org/x/tools/go/ssa"
)

func (w *World) protoTypes() map[string]*types.Named {
	w.mu.Lock()
	defer w.mu.Unlock()
	if w.protoReg != nil {
		return w.protoReg
	}
	reg := map[string]*types.Named{}
	var paths []string
	for p := range w.pkgs {
		paths = append(paths, p)
	}
	sort.Strings(paths)
	for _, p := range paths {
		pk := w.pkgs[p]
		if pk == nil || pk.Pkg == nil || !strings.HasPrefix(pk.Pkg.Path(), w.modPath) {
			continue
		}
		for _, m := range pk.Members {
			t, ok := m.(*ssa.Type)
			if !ok {
				continue
			}
			named, ok := t.Type().(*types.Named)
			if !ok {
				continue
			}
			ms := types.NewMethodSet(types.NewPointer(named))
			if ms.Lookup(nil, "UnmarshalVT") == nil || ms.Lookup(nil, "MarshalVT") == nil {
				continue
			}
			reg[pk.Pkg.Name()+"."+named.Obj().Name()] = named
		}
	}
	w.protoReg = reg
	return reg
}

// protoMsgType returns the named struct type behind a message value (*T with the VT codec), or nil.
func (e *Exec) protoMsgType(v Value) (*types.Named, iface) {
	i, ok := v.(iface)
	if !ok || i.t == nil {
		return nil, i
	}
	p, ok := i.t.(*types.Pointer)
	if !ok {
		return nil, i
	}
	n, ok := p.Elem().(*types.Named)
	if !ok || n.Obj().Pkg() == nil {
		return nil, i
	}
	if e.w.protoTypes()[n.Obj().Pkg().Name()+"."+n.Obj().Name()] != n {
		return nil, i
	}
	return n, i
}

func init() {
	ps := "(" + modPath + "/remote.ProtoSerializer)."
	notMsg := func(fr *frame) {
		fr.rtPanic("interface conversion: value is not a proto.Message (protobuf runtime model)")
	}
	intrinsics[ps+"TypeName"] = func(e *Exec, fr *frame, a []Value) Value {
		n, _ := e.protoMsgType(a[len(a)-1])
		if n == nil {
			notMsg(fr)
		}
		return n.Obj().Pkg().Name() + "." + n.Obj().Name()
	}
	intrinsics[ps+"Serialize"] = func(e *Exec, fr *frame, a []Value) Value {
		n, i := e.protoMsgType(a[len(a)-1])
		if n == nil {
			notMsg(fr)
		}
		f := e.w.prog.LookupMethod(i.t, nil, "MarshalVT")
		if f == nil {
			e.unsupported("no MarshalVT for %s", i.t)
		}
		return e.call(fr, 0, f, []Value{i.v})
	}
	intrinsics[ps+"Deserialize"] = func(e *Exec, fr *frame, a []Value) Value {
		data, tname := a[len(a)-2], a[len(a)-1]
		name, ok := tname.(string)
		if !ok {
			e.unsupported("ProtoSerializer.Deserialize with a symbolic type name")
		}
		n := e.w.protoTypes()[name]
		if n == nil {
			return tuple{iface{}, opaqueErr(e, fr, []Value{"proto: not found: " + name})}
		}
		pt := types.NewPointer(n)
		f := e.w.prog.LookupMethod(pt, nil, "UnmarshalVT")
		if f == nil {
			e.unsupported("no UnmarshalVT for %s", pt)
		}
		cell := new(Value)
		*cell = e.zero(n)
		err := e.call(fr, 0, f, []Value{cell, data})
		return tuple{iface{t: pt, v: cell}, err}
	}
}

// ---- the same runtime reached directly (protoregistry / proto), not through ProtoSerializer ----
//
// Code that looks a message type up itself (protoregistry.GlobalTypes.FindMessageByName), allocates it
// (MessageType.New().Interface()) and decodes with proto.Unmarshal - what ProtoSerializer.Deserialize does
// inside - is modelled with two tag types: a MessageType value carries the module's named struct type, a
// protoreflect.Message value carries the allocated cell.

type protoTag struct {
	types.Type
	kind string // "MessageType" or "Message"
}

func (t *protoTag) Underlying() types.Type { return t }
func (t *protoTag) String() string         { return "protobuf-model-" + t.kind }

var protoMTTag, protoMsgTag = &protoTag{kind: "MessageType"}, &protoTag{kind: "Message"}

// protoTagMethod dispatches an interface method call on one of the model's tag values.
func protoTagMethod(tag *protoTag, v Value, name string) hostFn {
	return func(e *Exec, fr *frame, a []Value) Value {
		switch {
		case tag == protoMTTag && name == "New":
			n := v.(*types.Named)
			cell := new(Value)
			*cell = e.zero(n)
			return iface{t: protoMsgTag, v: protoMsgVal{n, cell}}
		case tag == protoMsgTag && name == "Interface":
			m := v.(protoMsgVal)
			return iface{t: types.NewPointer(m.n), v: m.cell}
		}
		e.unsupported("protobuf runtime model: method %s on a %s", name, tag.kind)
		return nil
	}
}

type protoMsgVal struct {
	n    *types.Named
	cell *Value
}

func init() {
	intrinsics["(*google.golang.org/protobuf/reflect/protoregistry.Types).FindMessageByName"] = func(e *Exec, fr *frame, a []Value) Value {
		name, ok := a[len(a)-1].(string)
		if !ok {
			e.unsupported("FindMessageByName with a symbolic name")
		}
		n := e.w.protoTypes()[name]
		if n == nil {
			return tuple{iface{}, opaqueErr(e, fr, []Value{"proto: not found: " + name})}
		}
		return tuple{iface{t: protoMTTag, v: n}, iface{}}
	}
	intrinsics["google.golang.org/protobuf/proto.Unmarshal"] = func(e *Exec, fr *frame, a []Value) Value {
		n, i := e.protoMsgType(a[1])
		if n == nil {
			e.unsupported("proto.Unmarshal into a value outside the protobuf runtime model")
		}
		f := e.w.prog.LookupMethod(i.t, nil, "UnmarshalVT")
		if f == nil {
			e.unsupported("no UnmarshalVT for %s", i.t)
		}
		return e.call(fr, 0, f, []Value{i.v, a[0]})
	}
	intrinsics["google.golang.org/protobuf/proto.Marshal"] = func(e *Exec, fr *frame, a []Value) Value {
		n, i := e.protoMsgType(a[0])
		if n == nil {
			e.unsupported("proto.Marshal of a value outside the protobuf runtime model")
		}
		f := e.w.prog.LookupMethod(i.t, nil, "MarshalVT")
		if f == nil {
			e.unsupported("no MarshalVT for %s", i.t)
		}
		return e.call(fr, 0, f, []Value{i.v})
	}
	intrinsics["google.golang.org/protobuf/proto.MessageName"] = func(e *Exec, fr *frame, a []Value) Value {
		n, _ := e.protoMsgType(a[0])
		if n == nil {
			e.unsupported("proto.MessageName of a value outside the protobuf runtime model")
		}
		return n.Obj().Pkg().Name() + "." + n.Obj().Name()
	}
}
