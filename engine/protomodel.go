package main

// Model of the protobuf runtime behind remote.ProtoSerializer. ProtoSerializer's own three methods are executed
// as written; what they call - proto.Marshal, proto.MessageName, protoregistry.GlobalTypes.FindMessageByName,
// MessageType.New().Interface(), proto.Unmarshal - works by reflection and cannot be executed by the SSA executor.
// The model: a message is serialised by its own generated MarshalVT, its name is <go package name>.<type name>
// (which is what the .proto files of this module declare), FindMessageByName looks the name up among the module's
// types that have MarshalVT/UnmarshalVT, New().Interface() allocates one, Unmarshal runs its generated
// UnmarshalVT. proto.Marshal and proto.Unmarshal reject a proto3 string field that is not valid UTF-8, which
// the generated VT code does not check: the model adds that check for concrete strings. A value that is not a
// proto.Message fails ProtoSerializer's own type assertion, as natively.

import (
	"go/types"
	"reflect"
	"sort"
	"strings"
	"unicode/utf8"

	"golang.org/x/tools/go/ssa"
)

func (w *World) protoTypes() map[string]*types.Named {
	w.mu.Lock()
	defer w.mu.Unlock()
	if w.protoReg != nil {
		return w.protoReg
	}
	reg := map[string]*types.Named{}
	var paths []string
	for p := range w.pkgs {
		paths = append(paths, p)
	}
	sort.Strings(paths)
	for _, p := range paths {
		pk := w.pkgs[p]
		if pk == nil || pk.Pkg == nil || !strings.HasPrefix(pk.Pkg.Path(), w.modPath) {
			continue
		}
		for _, m := range pk.Members {
			t, ok := m.(*ssa.Type)
			if !ok {
				continue
			}
			named, ok := t.Type().(*types.Named)
			if !ok {
				continue
			}
			ms := types.NewMethodSet(types.NewPointer(named))
			if ms.Lookup(nil, "UnmarshalVT") == nil || ms.Lookup(nil, "MarshalVT") == nil {
				continue
			}
			reg[pk.Pkg.Name()+"."+named.Obj().Name()] = named
		}
	}
	w.protoReg = reg
	return reg
}

// protoMsgType returns the named struct type behind a message value (*T with the VT codec), or nil.
func (e *Exec) protoMsgType(v Value) (*types.Named, iface) {
	i, ok := v.(iface)
	if !ok || i.t == nil {
		return nil, i
	}
	p, ok := i.t.(*types.Pointer)
	if !ok {
		return nil, i
	}
	n, ok := p.Elem().(*types.Named)
	if !ok || n.Obj().Pkg() == nil {
		return nil, i
	}
	if e.w.protoTypes()[n.Obj().Pkg().Name()+"."+n.Obj().Name()] != n {
		return nil, i
	}
	return n, i
}

// ---- the same runtime reached directly (protoregistry / proto), not through ProtoSerializer ----
//
// Code that looks a message type up itself (protoregistry.GlobalTypes.FindMessageByName), allocates it
// (MessageType.New().Interface()) and decodes with proto.Unmarshal - what ProtoSerializer.Deserialize does
// inside - is modelled with two tag types: a MessageType value carries the module's named struct type, a
// protoreflect.Message value carries the allocated cell.

type protoTag struct {
	types.Type
	kind string // "MessageType" or "Message"
}

func (t *protoTag) Underlying() types.Type { return t }
func (t *protoTag) String() string         { return "protobuf-model-" + t.kind }

var protoMTTag, protoMsgTag = &protoTag{kind: "MessageType"}, &protoTag{kind: "Message"}

// descriptors found by name in protoregistry.GlobalFiles: one tag per kind of element of a .proto file
var protoDescTags = map[string]*protoTag{
	"MessageDescriptor": {kind: "MessageDescriptor"}, "FieldDescriptor": {kind: "FieldDescriptor"},
	"ServiceDescriptor": {kind: "ServiceDescriptor"}, "MethodDescriptor": {kind: "MethodDescriptor"},
}

// hasInterface: the protoreflect interface types a model value can be asserted to.
func (t *protoTag) hasInterface(name string) bool {
	if strings.HasSuffix(t.kind, "Descriptor") {
		return name == t.kind || name == "Descriptor"
	}
	return name == t.kind
}

// protoDescriptors: full name -> kind of every element the module's .proto files declare, recovered from the
// generated code: messages (types with the VT codec), their fields (the name= part of the protobuf struct tag),
// services (interfaces DRPC<Name>Server) and their methods.
func (w *World) protoDescriptors() map[string]string {
	msgs := w.protoTypes()
	w.mu.Lock()
	defer w.mu.Unlock()
	if w.protoDesc != nil {
		return w.protoDesc
	}
	d := map[string]string{}
	for name, n := range msgs {
		d[name] = "MessageDescriptor"
		if st, ok := n.Underlying().(*types.Struct); ok {
			for i := 0; i < st.NumFields(); i++ {
				for _, part := range strings.Split(reflect.StructTag(st.Tag(i)).Get("protobuf"), ",") {
					if strings.HasPrefix(part, "name=") {
						d[name+"."+strings.TrimPrefix(part, "name=")] = "FieldDescriptor"
					}
				}
			}
		}
	}
	for _, pk := range w.pkgs {
		if pk == nil || pk.Pkg == nil || !strings.HasPrefix(pk.Pkg.Path(), w.modPath) {
			continue
		}
		for mname, m := range pk.Members {
			t, ok := m.(*ssa.Type)
			if !ok || !strings.HasPrefix(mname, "DRPC") || !strings.HasSuffix(mname, "Server") || strings.Contains(mname, "_") {
				continue
			}
			it, ok := t.Type().Underlying().(*types.Interface)
			if !ok {
				continue
			}
			svc := pk.Pkg.Name() + "." + strings.TrimSuffix(strings.TrimPrefix(mname, "DRPC"), "Server")
			d[svc] = "ServiceDescriptor"
			for i := 0; i < it.NumMethods(); i++ {
				if mn := it.Method(i).Name(); !strings.HasPrefix(mn, "DRPC") {
					d[svc+"."+mn] = "MethodDescriptor"
				}
			}
		}
	}
	w.protoDesc = d
	return d
}

// protoNotFound is the value of protoregistry.NotFound (a sentinel the lookups return and callers compare with).
func (e *Exec) protoNotFound(fr *frame, what string) Value {
	if p := e.w.prog.ImportedPackage("google.golang.org/protobuf/reflect/protoregistry"); p != nil {
		if g, ok := p.Members["NotFound"].(*ssa.Global); ok {
			return *e.global(g)
		}
	}
	return opaqueErr(e, fr, []Value{"proto: not found: " + what})
}

// protoTagMethod dispatches an interface method call on one of the model's tag values.
func protoTagMethod(tag *protoTag, v Value, name string) hostFn {
	return func(e *Exec, fr *frame, a []Value) Value {
		switch {
		case tag == protoMTTag && name == "New":
			n := v.(*types.Named)
			cell := new(Value)
			*cell = e.zero(n)
			return iface{t: protoMsgTag, v: protoMsgVal{n, cell}}
		case tag == protoMsgTag && name == "Interface":
			m := v.(protoMsgVal)
			return iface{t: types.NewPointer(m.n), v: m.cell}
		}
		e.unsupported("protobuf runtime model: method %s on a %s", name, tag.kind)
		return nil
	}
}

// protoBadUTF8 reports whether a string field reachable from the message value (through nested messages and
// repeated fields of the module's own message types) is a concrete string that is not valid UTF-8.
func (e *Exec) protoBadUTF8(t types.Type, v Value, depth int) bool {
	if depth > 6 || v == nil {
		return false
	}
	switch tt := t.Underlying().(type) {
	case *types.Basic:
		if tt.Kind() == types.String {
			if s, ok := v.(string); ok {
				return !utf8.ValidString(s)
			}
		}
	case *types.Pointer:
		if cell, ok := v.(*Value); ok && cell != nil {
			if n, isNamed := tt.Elem().(*types.Named); isNamed && n.Obj().Pkg() != nil && strings.HasPrefix(n.Obj().Pkg().Path(), e.w.modPath) {
				return e.protoBadUTF8(tt.Elem(), *cell, depth+1)
			}
		}
	case *types.Struct:
		if sv, ok := v.(structV); ok {
			for i := 0; i < tt.NumFields() && i < len(sv); i++ {
				if tt.Field(i).Exported() && e.protoBadUTF8(tt.Field(i).Type(), sv[i], depth+1) {
					return true
				}
			}
		}
	case *types.Slice:
		if sl, ok := v.([]Value); ok {
			for _, x := range sl {
				if e.protoBadUTF8(tt.Elem(), x, depth+1) {
					return true
				}
			}
		}
	}
	return false
}

type protoMsgVal struct {
	n    *types.Named
	cell *Value
}

func init() {
	intrinsics["(*google.golang.org/protobuf/reflect/protoregistry.Types).FindMessageByName"] = func(e *Exec, fr *frame, a []Value) Value {
		name, ok := a[len(a)-1].(string)
		if !ok {
			e.unsupported("FindMessageByName with a symbolic name")
		}
		n := e.w.protoTypes()[name]
		if n == nil {
			return tuple{iface{}, e.protoNotFound(fr, name)}
		}
		return tuple{iface{t: protoMTTag, v: n}, iface{}}
	}
	intrinsics["(*google.golang.org/protobuf/reflect/protoregistry.Files).FindDescriptorByName"] = func(e *Exec, fr *frame, a []Value) Value {
		name, ok := a[len(a)-1].(string)
		if !ok {
			e.unsupported("FindDescriptorByName with a symbolic name")
		}
		kind, found := e.w.protoDescriptors()[name]
		if !found {
			return tuple{iface{}, e.protoNotFound(fr, name)}
		}
		return tuple{iface{t: protoDescTags[kind], v: name}, iface{}}
	}
	intrinsics["google.golang.org/protobuf/proto.Unmarshal"] = func(e *Exec, fr *frame, a []Value) Value {
		n, i := e.protoMsgType(a[1])
		if n == nil {
			e.unsupported("proto.Unmarshal into a value outside the protobuf runtime model")
		}
		f := e.w.prog.LookupMethod(i.t, nil, "UnmarshalVT")
		if f == nil {
			e.unsupported("no UnmarshalVT for %s", i.t)
		}
		err := e.call(fr, 0, f, []Value{i.v, a[0]})
		if ei, ok := err.(iface); ok && ei.t == nil && e.protoBadUTF8(i.t, i.v, 0) {
			return opaqueErr(e, fr, []Value{"proto: string field contains invalid UTF-8"})
		}
		return err
	}
	intrinsics["google.golang.org/protobuf/proto.Marshal"] = func(e *Exec, fr *frame, a []Value) Value {
		n, i := e.protoMsgType(a[0])
		if n == nil {
			e.unsupported("proto.Marshal of a value outside the protobuf runtime model")
		}
		f := e.w.prog.LookupMethod(i.t, nil, "MarshalVT")
		if f == nil {
			e.unsupported("no MarshalVT for %s", i.t)
		}
		if e.protoBadUTF8(i.t, i.v, 0) {
			return tuple{[]Value(nil), opaqueErr(e, fr, []Value{"proto: string field contains invalid UTF-8"})}
		}
		return e.call(fr, 0, f, []Value{i.v})
	}
	intrinsics["google.golang.org/protobuf/proto.MessageName"] = func(e *Exec, fr *frame, a []Value) Value {
		n, _ := e.protoMsgType(a[0])
		if n == nil {
			e.unsupported("proto.MessageName of a value outside the protobuf runtime model")
		}
		return n.Obj().Pkg().Name() + "." + n.Obj().Name()
	}
}
