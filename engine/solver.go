package main

// One long-lived `z3 -in` per worker. Definitions of terms are sent once at
// base level; each query is push / assert path condition + goal / check-sat /
// (get-value) / pop. Any "(error" line, "unknown" or timeout is Inconclusive.

import (
	"bufio"
	"context"
	"fmt"
	"io"
	"os"
	"os/exec"
	"sort"
	"strconv"
	"strings"
	"sync/atomic"
	"time"
)

func contextWithTimeout(d time.Duration) (context.Context, context.CancelFunc) {
	return context.WithTimeout(context.Background(), d)
}

type Verdict int

const (
	Unsat Verdict = iota
	Sat
	Inconclusive
)

func (v Verdict) String() string { return [...]string{"unsat", "sat", "inconclusive"}[v] }

type Solver struct {
	store     *TermStore
	cmd       *exec.Cmd
	in        io.WriteCloser
	out       *bufio.Reader
	defined   map[int]bool
	memo      map[string]memoEnt
	timeoutMs int
	bin       []string

	Queries    int
	MemoHits   int
	SolverTime time.Duration
	Errors     []string
	logw       io.Writer // optional query log (for cross-solver replay)
	logN       int
	logPath    string
	logf       *os.File
	logMax     int
}

type memoEnt struct {
	v Verdict
	m Model
}

// Primary solver: z3 5.1.0 ("z3-new", the z3-solver wheel's CLI) when it is on PATH - on the bit-vector queries of the
// codec harnesses it is 20-40x faster than the distribution's z3 4.8.12 - otherwise z3. GOSYM_SOLVER overrides.
// The other one is used for the per-run cross-check (crossCheckBin).
var solverBin, crossCheckBin = pickSolvers()

func pickSolvers() (primary, cross []string) {
	has := func(n string) bool { _, err := exec.LookPath(n); return err == nil }
	switch v := os.Getenv("GOSYM_SOLVER"); {
	case v != "":
		primary = []string{v, "-in"}
	case has("z3-new"):
		primary = []string{"z3-new", "-in"}
	default:
		primary = []string{"z3", "-in"}
	}
	for _, c := range []string{"z3", "z3-new"} {
		if c != primary[0] && has(c) {
			cross = []string{c}
			break
		}
	}
	return
}

var qlogSeq int64

func NewSolver(store *TermStore, timeoutMs int) (*Solver, error) {
	return NewSolverLog(store, timeoutMs, "", 0)
}

// NewSolverLog is NewSolver with a query log of at most max queries written to path.
func NewSolverLog(store *TermStore, timeoutMs int, path string, max int) (*Solver, error) {
	s := &Solver{store: store, timeoutMs: timeoutMs, bin: solverBin, logPath: path, logMax: max}
	if err := s.start(); err != nil {
		return nil, err
	}
	return s, nil
}

func (s *Solver) start() error {
	s.cmd = exec.Command(s.bin[0], s.bin[1:]...)
	in, err := s.cmd.StdinPipe()
	if err != nil {
		return err
	}
	out, err := s.cmd.StdoutPipe()
	if err != nil {
		return err
	}
	s.cmd.Stderr = os.Stderr
	if err := s.cmd.Start(); err != nil {
		return err
	}
	s.in, s.out = in, bufio.NewReaderSize(out, 1<<16)
	s.defined = map[int]bool{}
	s.memo = map[string]memoEnt{}
	fmt.Fprintf(s.in, "(set-option :print-success false)\n(set-option :produce-models true)\n(set-option :timeout %d)\n", s.timeoutMs)
	if s.logPath != "" && s.logw == nil {
		if f, err := os.Create(s.logPath); err == nil {
			s.logw = f
			s.logf = f
			fmt.Fprintf(f, "(set-option :print-success false)\n(set-option :timeout 4000)\n")
		}
	}
	if dir := os.Getenv("GOSYM_QLOG"); dir != "" && s.logw == nil {
		// query log: the exact text sent to the solver (definitions at base level, push/assert/check-sat/pop per
		// query, each followed by a "; expect <verdict>" comment) - replayable on another solver
		os.MkdirAll(dir, 0o755)
		if f, err := os.Create(fmt.Sprintf("%s/q-%d-%d.smt2", dir, os.Getpid(), atomic.AddInt64(&qlogSeq, 1))); err == nil {
			s.logw = f
		}
	}
	return nil
}

func (s *Solver) Close() {
	if s.cmd != nil {
		s.in.Close()
		s.cmd.Process.Kill()
		s.cmd.Wait()
		s.cmd = nil
	}
}

// Reset restarts the solver process (used when the term store is recycled).
func (s *Solver) Reset(store *TermStore) error {
	s.Close()
	s.store = store
	// term ids restart with the new store: the query log cannot be continued
	s.logPath, s.logw = "", nil
	return s.start()
}

func (s *Solver) readLine() (string, error) {
	l, err := s.out.ReadString('\n')
	return strings.TrimSpace(l), err
}

// readSexp reads one balanced s-expression (possibly multi-line).
func (s *Solver) readSexp() (string, error) {
	var sb strings.Builder
	depth, started := 0, false
	for {
		l, err := s.out.ReadString('\n')
		if err != nil {
			return sb.String(), err
		}
		inBar := false
		for _, c := range l {
			switch {
			case c == '|':
				inBar = !inBar
			case inBar:
			case c == '(':
				depth++
				started = true
			case c == ')':
				depth--
			}
		}
		sb.WriteString(l)
		if started && depth <= 0 {
			return sb.String(), nil
		}
		if !started && strings.TrimSpace(l) != "" {
			return sb.String(), nil
		}
	}
}

// Check decides satisfiability of the conjunction of conds. If wantModel and
// Sat, a model of all store variables is returned.
func (s *Solver) Check(conds []*Term, want []*Term) (Verdict, Model) {
	wantModel := want != nil
	// trivial cases
	live := conds[:0:0]
	for _, c := range conds {
		if c == s.store.False {
			return Unsat, nil
		}
		if c == s.store.True {
			continue
		}
		live = append(live, c)
	}
	ids := make([]int, len(live))
	for i, c := range live {
		ids[i] = c.id
	}
	sort.Ints(ids)
	var kb strings.Builder
	prev := -1
	for _, id := range ids {
		if id != prev {
			kb.WriteString(strconv.Itoa(id))
			kb.WriteByte(',')
		}
		prev = id
	}
	key := kb.String()
	if e, ok := s.memo[key]; ok && (!wantModel || e.v != Sat || e.m != nil) {
		s.MemoHits++
		return e.v, e.m
	}
	if len(live) == 0 {
		return Sat, Model{}
	}
	t0 := time.Now()
	var sb strings.Builder
	refs := make([]string, len(live))
	for i, c := range live {
		refs[i] = s.store.Ref(c, s.defined, &sb)
	}
	wrefs := make([]string, len(want))
	for i, t := range want {
		wrefs[i] = s.store.Ref(t, s.defined, &sb)
	}
	sb.WriteString("(push)\n")
	for _, r := range refs {
		fmt.Fprintf(&sb, "(assert %s)\n", r)
	}
	sb.WriteString("(check-sat)\n")
	s.Queries++
	logThis := s.logw != nil && (s.logMax == 0 || s.logN < s.logMax)
	if s.logw != nil && !logThis {
		// definitions must stay complete for later logged queries: none follow, so stop logging altogether
		s.logw = nil
	}
	if logThis {
		io.WriteString(s.logw, sb.String())
	}
	if _, err := io.WriteString(s.in, sb.String()); err != nil {
		s.Errors = append(s.Errors, "write: "+err.Error())
		return Inconclusive, nil
	}
	ans, err := s.readLine()
	for err == nil && ans == "" {
		ans, err = s.readLine()
	}
	v := Inconclusive
	var m Model
	switch {
	case err != nil:
		s.Errors = append(s.Errors, "read: "+err.Error())
	case ans == "sat":
		v = Sat
	case ans == "unsat":
		v = Unsat
	case strings.HasPrefix(ans, "(error"):
		s.Errors = append(s.Errors, ans)
		// drain possible following verdict line
		if l, e := s.readLine(); e == nil && (l == "sat" || l == "unsat" || l == "unknown") {
			_ = l
		}
	default:
		s.Errors = append(s.Errors, "answer: "+ans)
	}
	if v == Sat && wantModel {
		m = s.getModel(want, wrefs)
		if m == nil {
			v = Inconclusive
		}
	}
	if logThis {
		fmt.Fprintf(s.logw, "; expect %s %dms\n(pop)\n", v, time.Since(t0).Milliseconds())
		s.logN++
	}
	io.WriteString(s.in, "(pop)\n")
	s.SolverTime += time.Since(t0)
	s.memo[key] = memoEnt{v, m}
	return v, m
}

func (s *Solver) getModel(want []*Term, wrefs []string) Model {
	var names []string
	keyOf := map[string]string{}
	for i, v := range want {
		if v.op == OpConst {
			continue
		}
		names = append(names, wrefs[i])
		if v.op == OpVar {
			keyOf[wrefs[i]] = v.name
		} else {
			keyOf[wrefs[i]] = fmt.Sprintf("#%d", v.id)
		}
	}
	m := Model{}
	if len(names) == 0 {
		return m
	}
	fmt.Fprintf(s.in, "(get-value (%s))\n", strings.Join(names, " "))
	txt, err := s.readSexp()
	if err != nil || strings.Contains(txt, "(error") {
		s.Errors = append(s.Errors, "get-value: "+txt)
		return nil
	}
	// parse ((|a| #x..) (|b| true) ...)
	toks := tokenize(txt)
	i := 0
	for i < len(toks) {
		if toks[i] == "(" || toks[i] == ")" {
			i++
			continue
		}
		name := toks[i]
		if i+1 >= len(toks) {
			break
		}
		val := toks[i+1]
		i += 2
		if k, ok := keyOf[name]; ok {
			name = k
		} else {
			name = strings.Trim(name, "|")
		}
		switch {
		case val == "true":
			m[name] = 1
		case val == "false":
			m[name] = 0
		case strings.HasPrefix(val, "#x"):
			u, _ := strconv.ParseUint(val[2:], 16, 64)
			m[name] = u
		case strings.HasPrefix(val, "#b"):
			u, _ := strconv.ParseUint(val[2:], 2, 64)
			m[name] = u
		case val == "(":
			// (_ bvN w)
			if i+2 < len(toks) && toks[i] == "_" && strings.HasPrefix(toks[i+1], "bv") {
				u, _ := strconv.ParseUint(toks[i+1][2:], 10, 64)
				m[name] = u
				i += 4
			}
		}
	}
	return m
}

func tokenize(s string) []string {
	var out []string
	i := 0
	for i < len(s) {
		c := s[i]
		switch {
		case c == '(' || c == ')':
			out = append(out, string(c))
			i++
		case c == ' ' || c == '\n' || c == '\t' || c == '\r':
			i++
		case c == '|':
			j := i + 1
			for j < len(s) && s[j] != '|' {
				j++
			}
			out = append(out, s[i:j+1])
			i = j + 1
		default:
			j := i
			for j < len(s) && !strings.ContainsRune("() \n\t\r", rune(s[j])) {
				j++
			}
			out = append(out, s[i:j])
			i = j
		}
	}
	return out
}

// crossCheck replays a query log on the other solver and compares verdicts. It returns the number of queries
// compared (both gave sat/unsat), the number the other solver did not decide in time, and the disagreements.
func crossCheck(path string, budget time.Duration) (compared, undecided int, disagree []string, err error) {
	if len(crossCheckBin) == 0 {
		return 0, 0, nil, fmt.Errorf("no second solver on PATH")
	}
	b, err := os.ReadFile(path)
	if err != nil {
		return 0, 0, nil, err
	}
	var expect []string
	for _, l := range strings.Split(string(b), "\n") {
		if strings.HasPrefix(l, "; expect ") {
			f := strings.Fields(l)
			expect = append(expect, f[2])
		}
	}
	if len(expect) == 0 {
		return 0, 0, nil, nil
	}
	ctx, cancel := contextWithTimeout(budget)
	defer cancel()
	out, _ := exec.CommandContext(ctx, crossCheckBin[0], path).CombinedOutput()
	var got []string
	for _, l := range strings.Split(string(out), "\n") {
		l = strings.TrimSpace(l)
		switch {
		case l == "sat" || l == "unsat" || l == "unknown":
			got = append(got, l)
		case strings.HasPrefix(l, "(error"):
			return compared, undecided, disagree, fmt.Errorf("%s: %s", crossCheckBin[0], l)
		}
	}
	for i, e := range expect {
		if i >= len(got) {
			undecided += len(expect) - i
			break
		}
		switch {
		case got[i] == "unknown" || e == "inconclusive":
			undecided++
		case got[i] == e:
			compared++
		default:
			disagree = append(disagree, fmt.Sprintf("query %d: %s says %s, %s says %s", i, solverBin[0], e, crossCheckBin[0], got[i]))
		}
	}
	return
}
