package main

// Intrinsics: the harness runtime (zzrt) and the environment models for
// functions the executor does not enter (logging, formatting, hashing, ...).
// Every entry here is part of each claim's trusted base.

import (
	"fmt"
	"go/types"
	"strconv"
	"strings"

	"golang.org/x/tools/go/ssa"
)

type intrinsicFn func(e *Exec, fr *frame, args []Value) Value

const modPath = "github.com/anthdm/hollywood"

func strArg(v Value) string {
	if s, ok := v.(string); ok {
		return s
	}
	panic(fmt.Sprintf("expected concrete string, got %s", valString(v)))
}

func (e *Exec) zeroRet(fn *ssa.Function) Value {
	return e.zeroResults(fn)
}

var intrinsics map[string]intrinsicFn

func init() {
	z := modPath + "/zzrt."
	nd := func(w int) intrinsicFn {
		return func(e *Exec, fr *frame, a []Value) Value { return e.nondet(strArg(a[0]), w) }
	}
	intrinsics = map[string]intrinsicFn{
		z + "NondetInt64":  nd(64),
		z + "NondetInt":    nd(64),
		z + "NondetUint64": nd(64),
		z + "NondetInt32":  nd(32),
		z + "NondetUint32": nd(32),
		z + "NondetUint8":  nd(8),
		z + "NondetBool":   nd(0),
		z + "NondetIntn": func(e *Exec, fr *frame, a []Value) Value {
			n := a[1].(*Term)
			v := e.nondet(strArg(a[0]), 64)
			e.assume(e.st.And(e.st.App(OpSLe, 0, e.st.Const(64, 0), v), e.st.App(OpSLt, 0, v, n)))
			return v
		},
		z + "NondetString": func(e *Exec, fr *frame, a []Value) Value {
			n := int(e.concreteInt(fr, a[1].(*Term), true))
			name := strArg(a[0])
			key := e.nondetKey(name)
			b := make([]*Term, n)
			for i := range b {
				k := fmt.Sprintf("%s.%d", key, i)
				b[i] = e.st.Var(k, 8)
				e.nondets = append(e.nondets, nondetRec{k, b[i]})
			}
			if n == 0 {
				return ""
			}
			return &SymStr{b}
		},
		z + "NondetBytes": func(e *Exec, fr *frame, a []Value) Value {
			n := int(e.concreteInt(fr, a[1].(*Term), true))
			name := strArg(a[0])
			key := e.nondetKey(name)
			out := make([]Value, n)
			for i := range out {
				k := fmt.Sprintf("%s.%d", key, i)
				t := e.st.Var(k, 8)
				e.nondets = append(e.nondets, nondetRec{k, t})
				out[i] = t
			}
			return out
		},
		z + "Choose": func(e *Exec, fr *frame, a []Value) Value {
			n := int(e.concreteInt(fr, a[0].(*Term), true))
			if n <= 0 {
				e.end("pruned", "Choose(0)")
			}
			return e.st.Const(64, uint64(e.choose(n, 'c')))
		},
		z + "Assume": func(e *Exec, fr *frame, a []Value) Value { e.assume(a[0].(*Term)); return nil },
		z + "Assert": func(e *Exec, fr *frame, a []Value) Value { e.assert(a[0].(*Term), strArg(a[1])); return nil },
		z + "Fail":   func(e *Exec, fr *frame, a []Value) Value { e.assert(e.st.False, strArg(a[0])); return nil },
		z + "Tag": func(e *Exec, fr *frame, a []Value) Value {
			t := strArg(a[0])
			for _, x := range e.tags {
				if x == t {
					return nil
				}
			}
			e.tags = append(e.tags, t)
			return nil
		},
		z + "Reach": func(e *Exec, fr *frame, a []Value) Value { e.reached = append(e.reached, strArg(a[0])); return nil },
		z + "ReachIf": func(e *Exec, fr *frame, a []Value) Value {
			c := a[0].(*Term)
			if c == e.st.False {
				return nil
			}
			if c != e.st.True {
				if v, _ := e.check(c); v != Sat {
					return nil
				}
			}
			e.reached = append(e.reached, strArg(a[1]))
			return nil
		},
		z + "Observe": func(e *Exec, fr *frame, a []Value) Value {
			e.obs = append(e.obs, obsRec{strArg(a[0]), append([]Value(nil), a[1].([]Value)...)})
			return nil
		},
		z + "Symbolic":    func(e *Exec, fr *frame, a []Value) Value { return e.st.True },
		z + "MapRotate":   func(e *Exec, fr *frame, a []Value) Value { e.mapRotate = int(a[0].(*Term).val); return nil },
		z + "MapOrderAll": func(e *Exec, fr *frame, a []Value) Value { e.mapAllOrders = a[0].(*Term).val != 0; return nil },
		z + "Go": func(e *Exec, fr *frame, a []Value) Value {
			e.spawn(fr.caller, a[0], nil)
			return nil
		},
		z + "Point": func(e *Exec, fr *frame, a []Value) Value { e.schedPoint(fr); return nil },
		z + "Yield": func(e *Exec, fr *frame, a []Value) Value { e.schedPoint(fr); return nil },
		z + "Await": func(e *Exec, fr *frame, a []Value) Value {
			cond := a[0]
			e.await(fr, func() bool {
				r := e.call(fr, 0, cond, nil).(*Term)
				if r.IsConst() {
					return r.val != 0
				}
				return e.branch(r)
			})
			return nil
		},
		z + "Mark": func(e *Exec, fr *frame, a []Value) Value { e.markPoint(fr); return nil },
		z + "AwaitTimer": func(e *Exec, fr *frame, a []Value) Value {
			d := a[0].(*Term)
			cond := a[1]
			if !d.IsConst() {
				e.end("unsupported", "AwaitTimer with a symbolic deadline")
			}
			e.awaitTimer(fr, int64(d.val), func() bool {
				r := e.call(fr, 0, cond, nil).(*Term)
				if r.IsConst() {
					return r.val != 0
				}
				return e.branch(r)
			})
			return nil
		},
		z + "Quiesce":    func(e *Exec, fr *frame, a []Value) Value { e.quiesce(fr); return nil },
		z + "NumBlocked": func(e *Exec, fr *frame, a []Value) Value { return e.st.Const(64, uint64(e.numBlocked(fr.th))) },
		z + "ThreadID":   func(e *Exec, fr *frame, a []Value) Value { return e.st.Const(64, uint64(fr.th.id)) },
		z + "HBRelease": func(e *Exec, fr *frame, a []Value) Value {
			if e.race != nil {
				e.race.release(e, fr.th, hbKey(a[0]))
			}
			return nil
		},
		z + "HBAcquire": func(e *Exec, fr *frame, a []Value) Value {
			if e.race != nil {
				e.race.acquire(e, fr.th, hbKey(a[0]))
			}
			return nil
		},
		z + "RaceDetect": func(e *Exec, fr *frame, a []Value) Value {
			if a[0].(*Term).val != 0 {
				e.race = newRaceState(e)
			} else {
				e.race = nil
			}
			return nil
		},
		z + "ClockNow": func(e *Exec, fr *frame, a []Value) Value { return e.clockNow() },
		z + "ClockAdvance": func(e *Exec, fr *frame, a []Value) Value {
			e.clockAdvance(a[0].(*Term))
			return nil
		},
		z + "ClosePoint": func(e *Exec, fr *frame, a []Value) Value { return nil },
		z + "MarkClosed": func(e *Exec, fr *frame, a []Value) Value { return nil },

		// ---- environment models ----
		"fmt.Errorf":  opaqueErr,
		"errors.New":  opaqueErr,
		"fmt.Sprintf": sprintf,
		"fmt.Sprint":  func(e *Exec, fr *frame, a []Value) Value { return "<sprint>" },
		"errors.Is": func(e *Exec, fr *frame, a []Value) Value {
			return e.equals(nil, a[0], a[1])
		},
		"strconv.Itoa": func(e *Exec, fr *frame, a []Value) Value {
			t := a[0].(*Term)
			if t.IsConst() {
				return strconv.FormatInt(int64(t.val), 10)
			}
			// injective fixed-length stand-in: the 8 raw bytes of the value
			b := make([]*Term, 8)
			for i := 0; i < 8; i++ {
				b[i] = e.st.Extract(t, 63-8*i, 56-8*i)
			}
			return &SymStr{b}
		},
		// math/bits.Len*: the library body indexes a 256-entry table with the (symbolic) value, which would fork
		// 256 ways; the model is the exact function as an ite chain over the width.
		"math/bits.Len64": func(e *Exec, fr *frame, a []Value) Value { return bitsLen(e, a[0].(*Term), 64) },
		"math/bits.Len32": func(e *Exec, fr *frame, a []Value) Value { return bitsLen(e, a[0].(*Term), 32) },
		"math/bits.Len":   func(e *Exec, fr *frame, a []Value) Value { return bitsLen(e, a[0].(*Term), 64) },
		"strconv.FormatInt": func(e *Exec, fr *frame, a []Value) Value {
			t, b := a[0].(*Term), a[1].(*Term)
			if t.IsConst() && b.IsConst() {
				return strconv.FormatInt(int64(t.val), int(b.val))
			}
			bs := make([]*Term, 8)
			for i := 0; i < 8; i++ {
				bs[i] = e.st.Extract(t, 63-8*i, 56-8*i)
			}
			return &SymStr{bs}
		},
		"strconv.FormatUint": func(e *Exec, fr *frame, a []Value) Value {
			t, b := a[0].(*Term), a[1].(*Term)
			if t.IsConst() && b.IsConst() {
				return strconv.FormatUint(t.val, int(b.val))
			}
			bs := make([]*Term, 8)
			for i := 0; i < 8; i++ {
				bs[i] = e.st.Extract(t, 63-8*i, 56-8*i)
			}
			return &SymStr{bs}
		},
		"strings.Split": stringsSplit,
		// reflect.TypeOf(nil) is the nil Type (a method call on it panics, as natively); for any other value an
		// opaque non-nil Type whose methods return an opaque string (types are only ever printed by the repository)
		"reflect.TypeOf": func(e *Exec, fr *frame, a []Value) Value {
			if i, ok := a[0].(iface); ok && i.t == nil {
				return iface{}
			}
			p := new(Value)
			*p = &opaque{kind: "reflect.Type", desc: "type"}
			return iface{t: opaqueErrT, v: p}
		},
		"runtime/debug.Stack":         func(e *Exec, fr *frame, a []Value) Value { return []Value(nil) },
		"runtime.Gosched":             func(e *Exec, fr *frame, a []Value) Value { e.schedPoint(fr); return nil },
		modPath + "/actor.cleanTrace": func(e *Exec, fr *frame, a []Value) Value { return a[0] },
		"github.com/zeebo/xxh3.Hash":  xxh3Hash,
		"log.Fatal": func(e *Exec, fr *frame, a []Value) Value {
			panic(targetPanic{v: iface{t: e.w.runtimeErr, v: rtErr{"log.Fatal"}}, stack: fr.stack()})
		},
		"os.Exit": func(e *Exec, fr *frame, a []Value) Value {
			panic(targetPanic{v: iface{t: e.w.runtimeErr, v: rtErr{"os.Exit"}}, stack: fr.stack()})
		},
	}
}

var noopPrefixes = []string{"log/slog.", "(*log/slog.", "log.Print", "fmt.Fprint", "fmt.Print", "(log/slog."}

func lookupIntrinsic(name string, fn *ssa.Function) intrinsicFn {
	if f, ok := intrinsics[name]; ok {
		return f
	}
	for _, p := range noopPrefixes {
		if strings.HasPrefix(name, p) {
			return func(e *Exec, fr *frame, a []Value) Value { return e.zeroResults(fn) }
		}
	}
	return nil
}

var opaqueErrT = &opaqueType{}

func (t *opaqueType) Underlying() types.Type { return t }
func (t *opaqueType) String() string         { return "opaque-error" }

func opaqueErr(e *Exec, fr *frame, a []Value) Value {
	desc := "<symbolic>"
	if s, ok := a[0].(string); ok {
		desc = s
	}
	p := new(Value)
	*p = &opaque{kind: "error", desc: desc}
	return iface{t: opaqueErrT, v: p}
}

func sprintf(e *Exec, fr *frame, a []Value) Value {
	format, ok := a[0].(string)
	if !ok {
		return "<sprintf>"
	}
	rest := a[1].([]Value)
	hs := make([]interface{}, len(rest))
	for i, v := range rest {
		iv, _ := v.(iface)
		switch x := iv.v.(type) {
		case string:
			hs[i] = x
		case *Term:
			if !x.IsConst() {
				return "<sprintf>"
			}
			if _, signed, isInt := intInfo(iv.t); isInt && signed {
				hs[i] = int64(signExt(x.val, x.w))
			} else if isInt {
				hs[i] = x.val
			} else {
				hs[i] = x.val != 0
			}
		default:
			return "<sprintf>"
		}
	}
	return fmt.Sprintf(format, hs...)
}

func stringsSplit(e *Exec, fr *frame, a []Value) Value {
	sep, ok := a[1].(string)
	if !ok {
		e.unsupported("strings.Split with symbolic separator")
	}
	mk := func(parts []Value) Value { return parts }
	if s, ok := a[0].(string); ok {
		ps := strings.Split(s, sep)
		out := make([]Value, len(ps))
		for i, p := range ps {
			out[i] = p
		}
		return mk(out)
	}
	if len(sep) != 1 {
		e.unsupported("strings.Split of symbolic string with multi-byte separator")
	}
	s := a[0].(*SymStr)
	var out []Value
	start := 0
	sc := e.st.Const(8, uint64(sep[0]))
	for i, b := range s.b {
		if e.branch(e.st.Eq(b, sc)) {
			out = append(out, normStr(&SymStr{s.b[start:i]}))
			start = i + 1
		}
	}
	out = append(out, normStr(&SymStr{s.b[start:]}))
	return mk(out)
}

// xxh3Hash models the hash as an uninterpreted function per input length,
// plus the assumption that distinct inputs do not collide.
func xxh3Hash(e *Exec, fr *frame, a []Value) Value {
	bs := a[0].([]Value)
	args := make([]*Term, len(bs))
	for i, b := range bs {
		args[i] = b.(*Term)
	}
	st := e.st
	var h *Term
	if len(args) == 0 {
		h = st.Var("xxh3_empty", 64)
		e.nondetsOnce("xxh3_empty", h)
	} else {
		h = st.UF(fmt.Sprintf("xxh3_%d", len(args)), 64, args...)
	}
	for _, p := range e.ufApps {
		if p == h {
			return h
		}
	}
	// injectivity instances against every earlier application
	for _, p := range e.ufApps {
		var same *Term
		if len(p.args) != len(args) || p.op != h.op {
			same = st.False
		} else {
			cs := make([]*Term, len(args))
			for i := range args {
				cs[i] = st.Eq(args[i], p.args[i])
			}
			same = st.And(cs...)
		}
		e.addPC(st.Or(st.Not(st.Eq(h, p)), same))
	}
	e.ufApps = append(e.ufApps, h)
	return h
}

func (e *Exec) nondetsOnce(key string, t *Term) {
	for _, r := range e.nondets {
		if r.Key == key {
			return
		}
	}
	e.nondets = append(e.nondets, nondetRec{key, t})
}

// bitsLen returns the minimum number of bits needed to represent x (0 for x == 0) as a 64-bit int term.
func bitsLen(e *Exec, x *Term, w int) Value {
	st := e.st
	if x.IsConst() {
		n := 0
		for v := x.val; v != 0; v >>= 1 {
			n++
		}
		return st.Const(64, uint64(n))
	}
	res := st.Const(64, 0)
	for k := 1; k <= w; k++ {
		// x >= 2^(k-1)  =>  at least k bits
		ge := st.Not(st.App(OpULt, 0, x, st.Const(x.w, uint64(1)<<uint(k-1))))
		res = st.Ite(ge, st.Const(64, uint64(k)), res)
	}
	return res
}

func hbKey(v Value) interface{} {
	if i, ok := v.(iface); ok {
		return hbKey(i.v)
	}
	return v
}

func init() {
	z := modPath + "/zzrt."
	intrinsics[z+"Param"] = func(e *Exec, fr *frame, a []Value) Value {
		return e.st.Const(64, uint64(int64(e.params[strArg(a[0])])))
	}
	// RaceAccess(obj, write): a harness receiver declares a plain access to its own state
	intrinsics[z+"RaceAccess"] = func(e *Exec, fr *frame, a []Value) Value {
		if e.race != nil && e.race.watch {
			e.race.accessK(e, fr, hbKey(a[0]), a[1].(*Term).val != 0, false)
		}
		return nil
	}
	intrinsics[z+"RaceWatch"] = func(e *Exec, fr *frame, a []Value) Value {
		if e.race != nil {
			e.race.watch = a[0].(*Term).val != 0
		}
		return nil
	}
}
