package main

// The symbolic executor proper: frames, instruction dispatch, calls, panics
// and defers. Structure follows golang.org/x/tools/go/ssa/interp.

import (
	"fmt"
	"go/token"
	"go/types"
	"strings"
	"sync"

	"golang.org/x/tools/go/ssa"
)

type fnInfo struct {
	idx       map[ssa.Value]int
	n         int
	intrinsic intrinsicFn
	interp    bool // body may be interpreted
	name      string
}

type World struct {
	prog       *ssa.Program
	pkgs       map[string]*ssa.Package
	modPath    string
	mu         sync.Mutex
	fninfo     map[*ssa.Function]*fnInfo
	interpPkgs map[string]bool
	runtimeErr types.Type
	errorType  types.Type
	protoReg   map[string]*types.Named
	protoDesc  map[string]string
}

func (w *World) info(fn *ssa.Function) *fnInfo {
	w.mu.Lock()
	defer w.mu.Unlock()
	if fi, ok := w.fninfo[fn]; ok {
		return fi
	}
	if fn.Blocks == nil {
		// dependency packages are built on first call
		p := fn
		for p.Parent() != nil {
			p = p.Parent()
		}
		if pk := p.Package(); pk != nil {
			pk.Build()
		} else if o := p.Origin(); o != nil && o.Package() != nil {
			o.Package().Build()
		}
	}
	fi := &fnInfo{idx: map[ssa.Value]int{}}
	name := fn.String()
	if o := fn.Origin(); o != nil {
		name = o.String()
	}
	fi.name = name
	fi.intrinsic = lookupIntrinsic(name, fn)
	n := 0
	add := func(v ssa.Value) { fi.idx[v] = n; n++ }
	for _, p := range fn.Params {
		add(p)
	}
	for _, fv := range fn.FreeVars {
		add(fv)
	}
	for _, b := range fn.Blocks {
		for _, in := range b.Instrs {
			if v, ok := in.(ssa.Value); ok {
				add(v)
			}
		}
	}
	fi.n = n
	pk := fn.Package()
	if pk == nil && fn.Origin() != nil {
		pk = fn.Origin().Package()
	}
	if pk == nil && fn.Parent() != nil {
		p := fn
		for p.Parent() != nil {
			p = p.Parent()
		}
		pk = p.Package()
		if pk == nil && p.Origin() != nil {
			pk = p.Origin().Package()
		}
	}
	if pk != nil {
		path := pk.Pkg.Path()
		fi.interp = w.interpPkgs[path] || strings.HasPrefix(path, w.modPath)
	} else {
		// synthetic wrappers / bound methods / thunks without a package
		fi.interp = true
	}
	w.fninfo[fn] = fi
	return fi
}

type hostFn func(e *Exec, fr *frame, args []Value) Value

type deferred struct {
	fn   Value
	args []Value
	tail *deferred
	pos  token.Pos
}

type frame struct {
	e                *Exec
	caller           *frame
	fn               *ssa.Function
	fi               *fnInfo
	block, prevBlock *ssa.BasicBlock
	env              []Value
	defers           *deferred
	result           Value
	panicking        bool
	panicv           interface{}
	depth            int
	callpos          token.Pos
	th               *thread
}

func (fr *frame) get(key ssa.Value) Value {
	switch key := key.(type) {
	case nil:
		return nil
	case *ssa.Function:
		return key
	case *ssa.Builtin:
		return key
	case *ssa.Const:
		return fr.e.constValue(key)
	case *ssa.Global:
		return fr.e.global(key)
	}
	if i, ok := fr.fi.idx[key]; ok {
		return fr.env[i]
	}
	panic(fmt.Sprintf("get: no value for %T: %v in %s", key, key.Name(), fr.fn))
}

func (fr *frame) set(key ssa.Value, v Value) {
	fr.env[fr.fi.idx[key]] = v
}

// pathEnd is the host panic that terminates the current path.
type pathEnd struct {
	kind   string // "pruned","done","unsupported","unwound","violation-stop","abort"
	detail string
}

func (e *Exec) end(kind, detail string) {
	panic(pathEnd{kind, detail})
}

func (e *Exec) unsupported(format string, a ...interface{}) {
	e.end("unsupported", fmt.Sprintf(format, a...))
}

func (fr *frame) stack() []string {
	var out []string
	for f := fr; f != nil && len(out) < 24; f = f.caller {
		if f.fn != nil {
			out = append(out, f.fn.String())
		}
	}
	return out
}

// rtPanic raises a Go runtime error in the target.
func (fr *frame) rtPanic(msg string) {
	panic(targetPanic{v: iface{t: fr.e.w.runtimeErr, v: rtErr{msg}}, stack: fr.stack()})
}

func (fr *frame) runDefer(d *deferred) {
	var ok bool
	defer func() {
		if !ok {
			r := recover()
			if pe, isEnd := r.(pathEnd); isEnd {
				panic(pe)
			}
			if pa, isAb := r.(pathAbort); isAb {
				panic(pa)
			}
			fr.panicking = true
			fr.panicv = r
		}
	}()
	fr.e.call(fr, d.pos, d.fn, d.args)
	ok = true
}

func (fr *frame) runDefers() {
	for d := fr.defers; d != nil; d = d.tail {
		fr.runDefer(d)
	}
	fr.defers = nil
	if fr.panicking {
		panic(fr.panicv)
	}
}

func (e *Exec) call(caller *frame, pos token.Pos, fn Value, args []Value) Value {
	switch fn := fn.(type) {
	case *ssa.Function:
		if fn == nil {
			caller.rtPanic("invalid memory address or nil pointer dereference (call of nil func)")
		}
		return e.callSSA(caller, pos, fn, args, nil)
	case *closure:
		return e.callSSA(caller, pos, fn.Fn, args, fn.Env)
	case *ssa.Builtin:
		return e.callBuiltin(caller, pos, fn, args)
	case hostFn:
		return fn(e, caller, args)
	}
	panic(fmt.Sprintf("cannot call %T", fn))
}

// callSSARaw runs fn (no args) bypassing the initialiser filter.
func (e *Exec) callSSARaw(caller *frame, fn *ssa.Function) Value {
	return e.callSSA2(caller, 0, fn, nil, nil, true)
}

func (e *Exec) callSSA(caller *frame, pos token.Pos, fn *ssa.Function, args []Value, env []Value) Value {
	return e.callSSA2(caller, pos, fn, args, env, false)
}

func (e *Exec) callSSA2(caller *frame, pos token.Pos, fn *ssa.Function, args []Value, env []Value, raw bool) Value {
	if !raw && fn.Parent() == nil && fn.Signature.Recv() == nil {
		if fn.Synthetic == "package initializer" {
			if inModule(fn.Pkg) {
				e.initPkg(fn.Pkg)
			}
			return nil
		}
		if strings.HasPrefix(fn.Name(), "init#") {
			return nil
		}
	}
	fi := e.w.info(fn)
	fr := &frame{e: e, caller: caller, fn: fn, fi: fi, callpos: pos}
	if caller != nil {
		fr.depth = caller.depth + 1
		fr.th = caller.th
	}
	if fr.depth > e.cfg.MaxDepth {
		e.end("unwound", "call depth exceeded in "+fn.String())
	}
	if fi.intrinsic != nil {
		return fi.intrinsic(e, fr, args)
	}
	if fn.Blocks == nil || !fi.interp {
		if e.inInit {
			return e.zeroResults(fn)
		}
		if fn.Blocks == nil {
			e.unsupported("no body for %s", fi.name)
		}
		e.unsupported("call into unmodelled function %s", fi.name)
	}
	if fn.TypeParams().Len() > 0 && len(fn.TypeArgs()) == 0 {
		e.unsupported("uninstantiated generic %s", fi.name)
	}
	if e.cfg.Trace {
		fmt.Fprintf(e.traceW, "%*scall %s\n", fr.depth, "", fn)
	}
	e.noteFn(fn)
	fr.env = make([]Value, fi.n)
	fr.block = fn.Blocks[0]
	for _, l := range fn.Locals {
		c := new(Value)
		*c = e.zero(deref(l.Type()))
		fr.set(l, c)
	}
	for i, p := range fn.Params {
		fr.set(p, args[i])
	}
	for i, fv := range fn.FreeVars {
		fr.set(fv, env[i])
	}
	for fr.block != nil {
		e.runFrame(fr)
	}
	return fr.result
}

func (e *Exec) runFrame(fr *frame) {
	defer func() {
		if fr.block == nil {
			return
		}
		r := recover()
		if pe, ok := r.(pathEnd); ok {
			panic(pe)
		}
		if pa, ok := r.(pathAbort); ok {
			panic(pa)
		}
		if _, ok := r.(targetPanic); !ok {
			// executor bug or host runtime error: convert into an
			// "unsupported" path end with position info.
			panic(pathEnd{"internal", fmt.Sprintf("%v in %s", r, fr.fn)})
		}
		fr.panicking = true
		fr.panicv = r
		fr.runDefers()
		fr.block = fr.fn.Recover
		if fr.block == nil {
			// recovered, no named results: return zero value
			fr.result = e.zeroResults(fr.fn)
		}
	}()
	for {
		nonPhis := e.executePhis(fr)
		for _, instr := range nonPhis {
			e.steps++
			if e.steps > e.cfg.MaxSteps {
				e.end("unwound", "step budget exceeded")
			}
			k := e.visitInstr(fr, instr)
			if e.cfg.Trace {
				if v, ok := instr.(ssa.Value); ok {
					fmt.Fprintf(e.traceW, "%*s  %s = %s  => %s\n", fr.depth, "", v.Name(), instr, valString(fr.get(v)))
				} else {
					fmt.Fprintf(e.traceW, "%*s  %s\n", fr.depth, "", instr)
				}
			}
			if k == kReturn {
				return
			}
		}
	}
}

func (e *Exec) zeroResults(fn *ssa.Function) Value {
	res := fn.Signature.Results()
	switch res.Len() {
	case 0:
		return nil
	case 1:
		return e.zero(res.At(0).Type())
	}
	t := make(tuple, res.Len())
	for i := range t {
		t[i] = e.zero(res.At(i).Type())
	}
	return t
}

func (e *Exec) executePhis(fr *frame) []ssa.Instruction {
	instrs := fr.block.Instrs
	first := 0
	for first < len(instrs) {
		if _, ok := instrs[first].(*ssa.Phi); !ok {
			break
		}
		first++
	}
	if first > 0 {
		pred := -1
		for i, p := range fr.block.Preds {
			if p == fr.prevBlock {
				pred = i
				break
			}
		}
		tmp := make([]Value, first)
		for i := 0; i < first; i++ {
			tmp[i] = fr.get(instrs[i].(*ssa.Phi).Edges[pred])
		}
		for i := 0; i < first; i++ {
			fr.set(instrs[i].(*ssa.Phi), tmp[i])
		}
	}
	return instrs[first:]
}

type continuation int

const (
	kNext continuation = iota
	kReturn
	kJump
)

func (e *Exec) prepareCall(fr *frame, call *ssa.CallCommon) (fn Value, args []Value) {
	v := fr.get(call.Value)
	if call.Method == nil {
		fn = v
	} else {
		recv := v.(iface)
		if recv.t == nil {
			fr.rtPanic("invalid memory address or nil pointer dereference (method on nil interface)")
		}
		if _, isOpaque := recv.t.(*opaqueType); isOpaque || recv.t == e.w.runtimeErr {
			desc := valString(recv.v)
			return hostFn(func(e *Exec, fr *frame, a []Value) Value { return "error(" + desc + ")" }), nil
		}
		if tag, isTag := recv.t.(*protoTag); isTag {
			return protoTagMethod(tag, recv.v, call.Method.Name()), nil
		}
		f := e.lookupMethod(recv.t, call.Method)
		if f == nil {
			e.unsupported("no method %s for dynamic type %s", call.Method, recv.t)
		}
		fn = f
		args = append(args, recv.v)
	}
	for _, a := range call.Args {
		args = append(args, fr.get(a))
	}
	return
}

func (e *Exec) lookupMethod(t types.Type, m *types.Func) *ssa.Function {
	if t == e.w.runtimeErr {
		return nil
	}
	return e.w.prog.LookupMethod(t, m.Pkg(), m.Name())
}

func (e *Exec) visitInstr(fr *frame, instr ssa.Instruction) continuation {
	st := e.st
	switch instr := instr.(type) {
	case *ssa.DebugRef:

	case *ssa.UnOp:
		fr.set(instr, e.unop(fr, instr, fr.get(instr.X)))

	case *ssa.BinOp:
		fr.set(instr, e.binop(fr, instr.Op, instr.X.Type(), instr.Y.Type(), fr.get(instr.X), fr.get(instr.Y)))

	case *ssa.Call:
		fn, args := e.prepareCall(fr, &instr.Call)
		fr.set(instr, e.call(fr, instr.Pos(), fn, args))

	case *ssa.ChangeInterface:
		fr.set(instr, fr.get(instr.X))

	case *ssa.ChangeType:
		fr.set(instr, fr.get(instr.X))

	case *ssa.Convert:
		fr.set(instr, e.conv(fr, instr.Type(), instr.X.Type(), fr.get(instr.X)))

	case *ssa.MakeInterface:
		fr.set(instr, iface{t: instr.X.Type(), v: fr.get(instr.X)})

	case *ssa.Extract:
		fr.set(instr, fr.get(instr.Tuple).(tuple)[instr.Index])

	case *ssa.Slice:
		fr.set(instr, e.slice(fr, instr, fr.get(instr.X), fr.get(instr.Low), fr.get(instr.High), fr.get(instr.Max)))

	case *ssa.Return:
		switch len(instr.Results) {
		case 0:
		case 1:
			fr.result = fr.get(instr.Results[0])
		default:
			res := make(tuple, len(instr.Results))
			for i, r := range instr.Results {
				res[i] = fr.get(r)
			}
			fr.result = res
		}
		fr.block = nil
		return kReturn

	case *ssa.RunDefers:
		fr.runDefers()

	case *ssa.Panic:
		panic(targetPanic{v: fr.get(instr.X), stack: fr.stack()})

	case *ssa.Send:
		e.chanSend(fr, fr.get(instr.Chan).(*chanV), fr.get(instr.X))

	case *ssa.Store:
		p := fr.get(instr.Addr).(*Value)
		if p == nil {
			fr.rtPanic("invalid memory address or nil pointer dereference (store)")
		}
		e.raceWrite(fr, p)
		assignInto(p, fr.get(instr.Val))

	case *ssa.If:
		c := fr.get(instr.Cond).(*Term)
		succ := 1
		if c.IsConst() {
			if c.val != 0 {
				succ = 0
			}
		} else if e.branch(c) {
			succ = 0
		}
		fr.prevBlock, fr.block = fr.block, fr.block.Succs[succ]
		return kJump

	case *ssa.Jump:
		fr.prevBlock, fr.block = fr.block, fr.block.Succs[0]
		return kJump

	case *ssa.Defer:
		fn, args := e.prepareCall(fr, &instr.Call)
		if instr.DeferStack != nil {
			e.unsupported("defer with explicit DeferStack")
		}
		fr.defers = &deferred{fn: fn, args: args, tail: fr.defers, pos: instr.Pos()}

	case *ssa.Go:
		fn, args := e.prepareCall(fr, &instr.Call)
		e.spawn(fr, fn, args)

	case *ssa.MakeChan:
		n := e.concreteInt(fr, fr.get(instr.Size).(*Term), true)
		e.chanSeq++
		fr.set(instr, &chanV{cap: int(n), id: e.chanSeq})

	case *ssa.Alloc:
		c := new(Value)
		*c = e.zero(deref(instr.Type()))
		fr.set(instr, c)

	case *ssa.MakeSlice:
		ln := e.concreteInt(fr, fr.get(instr.Len).(*Term), true)
		cp := e.concreteInt(fr, fr.get(instr.Cap).(*Term), true)
		if ln < 0 {
			fr.rtPanic("makeslice: len out of range")
		}
		if cp < ln {
			fr.rtPanic("makeslice: cap out of range")
		}
		if cp > int64(e.cfg.MaxAlloc) {
			e.end("unwound", fmt.Sprintf("make slice of %d elements exceeds allocation bound", cp))
		}
		tElt := instr.Type().Underlying().(*types.Slice).Elem()
		s := make([]Value, cp)
		if cp > 4096 {
			// large backing arrays (a 1M-slot inbox) are filled with one shared lazy-zero marker; a slot is
			// materialised when it is first loaded from or addressed into (see materialise)
			lz := &lazyZero{t: tElt}
			for i := range s {
				s[i] = lz
			}
		} else {
			for i := range s {
				s[i] = e.zero(tElt)
			}
		}
		fr.set(instr, s[:ln])

	case *ssa.MakeMap:
		fr.set(instr, &mapV{keyT: instr.Type().Underlying().(*types.Map).Key()})

	case *ssa.Range:
		fr.set(instr, e.rangeIter(fr, fr.get(instr.X), instr.X.Type()))

	case *ssa.Next:
		fr.set(instr, e.iterNext(fr, instr, fr.get(instr.Iter)))

	case *ssa.FieldAddr:
		p := fr.get(instr.X).(*Value)
		if p == nil {
			fr.rtPanic("invalid memory address or nil pointer dereference (field)")
		}
		e.materialise(p)
		fr.set(instr, &(*p).(structV)[instr.Field])

	case *ssa.Field:
		fr.set(instr, copyVal(fr.get(instr.X).(structV)[instr.Field]))

	case *ssa.IndexAddr:
		x := fr.get(instr.X)
		idx := fr.get(instr.Index).(*Term)
		_, signed, _ := intInfo(instr.Index.Type())
		switch x := x.(type) {
		case []Value:
			i := e.indexIn(fr, idx, signed, len(x))
			fr.set(instr, &x[i])
		case *Value:
			if x == nil {
				fr.rtPanic("invalid memory address or nil pointer dereference (index)")
			}
			e.materialise(x)
			a := (*x).(arrayV)
			i := e.indexIn(fr, idx, signed, len(a))
			fr.set(instr, &a[i])
		default:
			panic(fmt.Sprintf("IndexAddr on %T", x))
		}

	case *ssa.Index:
		x := fr.get(instr.X)
		idx := fr.get(instr.Index).(*Term)
		_, signed, _ := intInfo(instr.Index.Type())
		switch x := x.(type) {
		case arrayV:
			i := e.indexIn(fr, idx, signed, len(x))
			fr.set(instr, copyVal(x[i]))
		case string:
			i := e.indexIn(fr, idx, signed, len(x))
			fr.set(instr, st.Const(8, uint64(x[i])))
		case *SymStr:
			i := e.indexIn(fr, idx, signed, len(x.b))
			fr.set(instr, x.b[i])
		default:
			panic(fmt.Sprintf("Index on %T", x))
		}

	case *ssa.Lookup:
		fr.set(instr, e.lookup(fr, instr, fr.get(instr.X), fr.get(instr.Index)))

	case *ssa.MapUpdate:
		m := fr.get(instr.Map).(*mapV)
		if m == nil {
			panic(targetPanic{v: iface{t: e.w.runtimeErr, v: rtErr{"assignment to entry in nil map"}}, stack: fr.stack()})
		}
		e.mapSet(fr, m, fr.get(instr.Key), copyVal(fr.get(instr.Value)))

	case *ssa.TypeAssert:
		fr.set(instr, e.typeAssert(fr, instr, fr.get(instr.X).(iface)))

	case *ssa.MakeClosure:
		var b []Value
		for _, x := range instr.Bindings {
			b = append(b, fr.get(x))
		}
		fr.set(instr, &closure{instr.Fn.(*ssa.Function), b})

	case *ssa.Select:
		fr.set(instr, e.selectOp(fr, instr))

	case *ssa.SliceToArrayPointer:
		e.unsupported("SliceToArrayPointer")

	default:
		panic(fmt.Sprintf("unexpected instruction %T", instr))
	}
	return kNext
}

func (e *Exec) constValue(c *ssa.Const) Value {
	if c.Value == nil {
		return e.zero(c.Type())
	}
	t := c.Type()
	if w, _, ok := intInfo(t); ok {
		if b := basicOf(t); b.Info()&types.IsUnsigned != 0 {
			return e.st.Const(w, c.Uint64())
		}
		return e.st.Const(w, uint64(c.Int64()))
	}
	switch {
	case isBool(t):
		return e.st.Bool(c.Value.String() == "true")
	case isString(t):
		return constString(c)
	case isFloat(t):
		return c.Float64()
	}
	panic(fmt.Sprintf("constValue: %s", c))
}

// zero returns the zero value of t.
func (e *Exec) zero(t types.Type) Value {
	switch u := t.Underlying().(type) {
	case *types.Basic:
		if w, _, ok := intInfo(u); ok {
			return e.st.Const(w, 0)
		}
		switch {
		case u.Info()&types.IsBoolean != 0:
			return e.st.False
		case u.Info()&types.IsString != 0:
			return ""
		case u.Info()&types.IsFloat != 0:
			return float64(0)
		case u.Kind() == types.UnsafePointer:
			return (*Value)(nil)
		case u.Kind() == types.UntypedNil:
			return nil
		}
	case *types.Pointer:
		return (*Value)(nil)
	case *types.Slice:
		return []Value(nil)
	case *types.Map:
		return (*mapV)(nil)
	case *types.Chan:
		return (*chanV)(nil)
	case *types.Signature:
		return (*ssa.Function)(nil)
	case *types.Interface:
		return iface{}
	case *types.Struct:
		s := make(structV, u.NumFields())
		for i := range s {
			s[i] = e.zero(u.Field(i).Type())
		}
		return s
	case *types.Array:
		n := int(u.Len())
		if n > e.cfg.MaxAlloc {
			e.end("unwound", fmt.Sprintf("array of %d elements exceeds allocation bound", n))
		}
		a := make(arrayV, n)
		for i := range a {
			a[i] = e.zero(u.Elem())
		}
		return a
	case *types.Tuple:
		tt := make(tuple, u.Len())
		for i := range tt {
			tt[i] = e.zero(u.At(i).Type())
		}
		return tt
	}
	panic(fmt.Sprintf("zero: %s (%T)", t, t.Underlying()))
}

// lazyZero stands for the zero value of t in a large freshly made slice.
type lazyZero struct{ t types.Type }

// materialise replaces a lazy-zero marker in the cell by a real zero value.
func (e *Exec) materialise(p *Value) {
	if lz, ok := (*p).(*lazyZero); ok {
		*p = e.zero(lz.t)
	}
}
