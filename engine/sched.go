package main

// Target goroutines are host goroutines that only run while they hold the
// path's token. Scheduling points are zzrt.Point/Yield/Await/Quiesce, channel
// operations, `go` and thread exit. Switching away from a thread that could
// continue is a preemption, bounded by cfg.Preempt.

import (
	"fmt"
	"go/types"
	"os"

	"golang.org/x/tools/go/ssa"
)

type thread struct {
	id        int
	resume    chan struct{}
	done      bool
	blocked   func() bool // non-nil while waiting; true when it may proceed
	inQuiesce bool
	started   bool
	vc        []int // vector clock (race detector)
	hasTimer  bool  // waiting in AwaitTimer: becomes runnable when the harness clock reaches timerAt
	timerAt   int64
}

var schedTrace = os.Getenv("ZZSCHEDTRACE") != ""

type pathAbort struct{}

func (e *Exec) newThread() *thread {
	t := &thread{id: len(e.threads), resume: make(chan struct{}, 1)}
	e.threads = append(e.threads, t)
	if e.race != nil {
		e.race.onNewThread(e, t)
	}
	return t
}

// spawn implements `go fn(args...)`.
func (e *Exec) spawn(fr *frame, fn Value, args []Value) {
	if len(e.threads) >= 96 {
		e.end("unwound", "more than 96 goroutines")
	}
	t := e.newThread()
	e.wg.Add(1)
	go e.threadMain(t, fn, args)
	e.schedPoint(fr)
}

func (e *Exec) threadMain(t *thread, fn Value, args []Value) {
	defer e.wg.Done()
	defer func() {
		r := recover()
		switch r := r.(type) {
		case nil:
		case pathAbort:
		case pathEnd:
			e.abortWith(r)
		case targetPanic:
			e.crash(r)
		default:
			e.abortWith(pathEnd{"internal", fmt.Sprintf("host panic in thread %d: %v", t.id, r)})
		}
	}()
	<-t.resume
	if e.isAborted() {
		panic(pathAbort{})
	}
	t.started = true
	fr := &frame{e: e, th: t, fn: nil}
	_ = fr
	e.callTop(t, fn, args)
	t.done = true
	e.reschedule(t, false)
}

// callTop runs fn as the bottom frame of thread t.
func (e *Exec) callTop(t *thread, fn Value, args []Value) Value {
	base := &frame{e: e, th: t, depth: 0}
	switch f := fn.(type) {
	case *ssa.Function:
		return e.callSSA(base, 0, f, args, nil)
	case *closure:
		return e.callSSA(base, 0, f.Fn, args, f.Env)
	}
	panic(fmt.Sprintf("go on %T", fn))
}

func (e *Exec) isAborted() bool {
	e.abortMu.Lock()
	defer e.abortMu.Unlock()
	return e.aborted
}

// abortWith ends the path from a non-main thread: record the end state and
// wake every parked thread so that it unwinds.
func (e *Exec) abortWith(pe pathEnd) {
	e.abortMu.Lock()
	if e.aborted {
		e.abortMu.Unlock()
		return
	}
	e.aborted = true
	e.endState = &pe
	e.abortMu.Unlock()
	for _, t := range e.threads {
		if t != e.cur || true {
			select {
			case t.resume <- struct{}{}:
			default:
			}
		}
	}
	// threads not currently parked on resume will observe aborted at their
	// next scheduling operation; closing is done by the path runner.
}

func (e *Exec) crash(p targetPanic) {
	// a panic escaped a goroutine: the whole process dies
	e.ensureModelQuiet()
	e.addFinding("panic", "panic-escaped", valString(p.v), e.model, p.stack)
	e.abortWith(pathEnd{"crash", valString(p.v)})
}

func (e *Exec) ensureModelQuiet() {
	defer func() {
		if r := recover(); r != nil {
			if _, ok := r.(pathEnd); !ok {
				panic(r)
			}
		}
	}()
	e.ensureModel()
}

func (e *Exec) enabled(t *thread) bool {
	if t.done {
		return false
	}
	if t.blocked != nil {
		return t.blocked()
	}
	return true
}

// reschedule is called by the running thread `me` at a scheduling point.
// canContinue: me could keep running.
func (e *Exec) reschedule(me *thread, canContinue bool) {
	if e.isAborted() {
		panic(pathAbort{})
	}
	var cands []*thread
	advanced := false // the clock was moved to a pending timer: the caller itself may be the one that is due
	collect := func() {
		cands = cands[:0]
		for _, t := range e.threads {
			if t == me {
				if (canContinue || (advanced && e.enabled(t))) && !t.inQuiesce {
					cands = append(cands, t)
				}
				continue
			}
			if !t.inQuiesce && e.enabled(t) {
				cands = append(cands, t)
			}
		}
	}
	collect()
	if len(cands) == 0 && e.advanceToTimer() {
		advanced = true
		// every thread is blocked and a timer is pending: time passes until the earliest one is due
		collect()
	}
	if len(cands) == 0 {
		// only quiescing threads can run now
		for _, t := range e.threads {
			if t.inQuiesce && !t.done {
				cands = append(cands, t)
			}
		}
	}
	if len(cands) == 0 {
		if me.done {
			// last thread finished while main is gone: nothing to do
			nb := 0
			for _, t := range e.threads {
				if !t.done {
					nb++
				}
			}
			if nb == 0 {
				return
			}
		}
		e.deadlock()
	}
	// order: me first (continuing is decision 0)
	if canContinue && !me.inQuiesce {
		if e.preemptions >= e.cfg.Preempt || len(cands) == 1 {
			return
		}
		ord := []*thread{me}
		for _, t := range cands {
			if t != me {
				ord = append(ord, t)
			}
		}
		cands = ord
		k := e.choose(len(cands), 's')
		if schedTrace {
			ids := []int{}
			for _, t := range cands {
				ids = append(ids, t.id)
			}
			fmt.Fprintln(os.Stderr, "ZZSCHED preempt-point me", me.id, "cands", ids, "pick", k)
		}
		if k == 0 {
			return
		}
		e.preemptions++
		e.switchTo(me, cands[k])
		return
	}
	k := 0
	if len(cands) > 1 && !e.cfg.DetSched {
		// DetSched: when the running thread blocks or ends, the first enabled thread (creation order) runs -
		// one schedule per history instead of every order of the runnable threads
		k = e.choose(len(cands), 's')
	}
	if schedTrace {
		ids := []int{}
		for _, t := range cands {
			ids = append(ids, t.id)
		}
		fmt.Fprintln(os.Stderr, "ZZSCHED blocking-point me", me.id, "cands", ids, "pick", k)
	}
	if cands[k] == me {
		return
	}
	e.switchTo(me, cands[k])
}

func (e *Exec) switchTo(me, t *thread) {
	e.cur = t
	t.resume <- struct{}{}
	if me.done {
		return
	}
	<-me.resume
	if e.isAborted() {
		panic(pathAbort{})
	}
}

func (e *Exec) deadlock() {
	e.ensureModelQuiet()
	var who string
	for _, t := range e.threads {
		if !t.done {
			who += fmt.Sprintf(" g%d", t.id)
		}
	}
	e.addFinding("deadlock", "deadlock", "blocked forever:"+who, e.model, nil)
	e.end("deadlock", who)
}

// schedPoint: a point where other threads may interleave.
func (e *Exec) schedPoint(fr *frame) {
	if len(e.threads) <= 1 || e.cfg.MarkOnly {
		return
	}
	if schedTrace {
		w := ""
		for f, d := fr, 0; f != nil && d < 4; f, d = f.caller, d+1 {
			if f.fn != nil {
				w += " " + f.fn.String()
			}
		}
		fmt.Fprintln(os.Stderr, "ZZSCHED at", w)
	}
	e.reschedule(fr.th, true)
}

// markPoint: zzrt.Mark, the only preemption points under ZZMARKONLY=1 (message boundaries).
func (e *Exec) markPoint(fr *frame) {
	if len(e.threads) <= 1 || !e.cfg.MarkOnly {
		return
	}
	e.reschedule(fr.th, true)
}

// await blocks the current thread until cond holds.
func (e *Exec) await(fr *frame, cond func() bool) {
	me := fr.th
	for !cond() {
		me.blocked = cond
		e.reschedule(me, false)
		me.blocked = nil
	}
}

// advanceToTimer moves the harness clock to the earliest pending timer deadline; false when no thread waits
// on a timer (or the clock is not a constant, which no harness produces).
func (e *Exec) advanceToTimer() bool {
	now := e.clockNow()
	if !now.IsConst() {
		return false
	}
	found := false
	var min int64
	for _, t := range e.threads {
		if !t.done && t.hasTimer && t.blocked != nil && (!found || t.timerAt < min) {
			found, min = true, t.timerAt
		}
	}
	if !found || min <= int64(now.val) {
		return false
	}
	e.clock = e.st.Const(64, uint64(min))
	return true
}

// awaitTimer blocks until the harness clock has reached deadline or cond holds.
func (e *Exec) awaitTimer(fr *frame, deadline int64, cond func() bool) {
	me := fr.th
	me.hasTimer, me.timerAt = true, deadline
	e.await(fr, func() bool {
		now := e.clockNow()
		if !now.IsConst() || int64(now.val) >= deadline {
			return true
		}
		return cond()
	})
	me.hasTimer = false
}

// quiesce blocks until no other thread can run.
func (e *Exec) quiesce(fr *frame) {
	me := fr.th
	me.inQuiesce = true
	e.reschedule(me, false)
	me.inQuiesce = false
	if e.race != nil {
		e.race.joinAll(e, me)
	}
}

func (e *Exec) numBlocked(me *thread) int {
	n := 0
	for _, t := range e.threads {
		if t != me && !t.done {
			n++
		}
	}
	return n
}

// ---- channels ----

func (e *Exec) chanSend(fr *frame, ch *chanV, v Value) {
	e.schedPoint(fr)
	if ch == nil {
		e.await(fr, func() bool { return false })
	}
	limit := ch.cap
	if limit == 0 {
		limit = 1
	}
	e.await(fr, func() bool { return ch.closed || len(ch.buf) < limit })
	if ch.closed {
		fr.rtPanic("send on closed channel")
	}
	ch.buf = append(ch.buf, copyVal(v))
	if e.race != nil {
		e.race.release(e, fr.th, ch)
	}
	if ch.cap == 0 {
		// rendezvous: wait until taken
		n := len(ch.buf)
		_ = n
		e.await(fr, func() bool { return len(ch.buf) == 0 || ch.closed })
	}
}

func (e *Exec) chanRecv(fr *frame, ch *chanV, elem types.Type) (Value, bool) {
	e.schedPoint(fr)
	if ch == nil {
		e.await(fr, func() bool { return false })
	}
	e.await(fr, func() bool { return ch.closed || len(ch.buf) > 0 })
	if e.race != nil {
		e.race.acquire(e, fr.th, ch)
	}
	if len(ch.buf) > 0 {
		v := ch.buf[0]
		ch.buf = append([]Value(nil), ch.buf[1:]...)
		return v, true
	}
	return e.zero(elem), false
}

func (e *Exec) chanClose(fr *frame, ch *chanV) {
	e.schedPoint(fr)
	if ch == nil {
		fr.rtPanic("close of nil channel")
	}
	if ch.closed {
		fr.rtPanic("close of closed channel")
	}
	if e.race != nil {
		e.race.release(e, fr.th, ch)
	}
	ch.closed = true
}

func (e *Exec) selectOp(fr *frame, instr *ssa.Select) Value {
	st := e.st
	e.schedPoint(fr)
	type cs struct {
		ch   *chanV
		send bool
		val  Value
	}
	cases := make([]cs, len(instr.States))
	for i, s := range instr.States {
		c := cs{ch: fr.get(s.Chan).(*chanV), send: s.Dir == types.SendOnly}
		if c.send {
			c.val = fr.get(s.Send)
		}
		cases[i] = c
	}
	ready := func() []int {
		var r []int
		for i, c := range cases {
			if c.ch == nil {
				continue
			}
			if c.send {
				limit := c.ch.cap
				if limit == 0 {
					limit = 1
				}
				if c.ch.closed || len(c.ch.buf) < limit {
					r = append(r, i)
				}
			} else if c.ch.closed || len(c.ch.buf) > 0 {
				r = append(r, i)
			}
		}
		return r
	}
	rd := ready()
	chosen := -1
	if len(rd) == 0 {
		if instr.Blocking {
			e.await(fr, func() bool { return len(ready()) > 0 })
			rd = ready()
		}
	}
	if len(rd) > 0 {
		chosen = rd[e.choose(len(rd), 'c')]
	}
	r := tuple{st.Const(64, uint64(int64(chosen))), st.False}
	var recvOk bool
	var recvVal Value
	if chosen >= 0 {
		c := cases[chosen]
		if c.send {
			if c.ch.closed {
				fr.rtPanic("send on closed channel")
			}
			c.ch.buf = append(c.ch.buf, copyVal(c.val))
			if e.race != nil {
				e.race.release(e, fr.th, c.ch)
			}
		} else {
			if e.race != nil {
				e.race.acquire(e, fr.th, c.ch)
			}
			if len(c.ch.buf) > 0 {
				recvVal, recvOk = c.ch.buf[0], true
				c.ch.buf = append([]Value(nil), c.ch.buf[1:]...)
			}
		}
	}
	r[1] = st.Bool(recvOk)
	for i, s := range instr.States {
		if s.Dir == types.RecvOnly {
			var v Value
			if i == chosen && recvOk {
				v = recvVal
			} else {
				v = e.zero(s.Chan.Type().Underlying().(*types.Chan).Elem())
			}
			r = append(r, v)
		}
	}
	return r
}
