package main

import (
	"go/types"
	"strings"

	"golang.org/x/tools/go/ssa"
)

func inModule(p *ssa.Package) bool {
	return p != nil && strings.HasPrefix(p.Pkg.Path(), modPath)
}

// global returns the cell of g, allocating it on first use.
func (e *Exec) global(g *ssa.Global) *Value {
	if c, ok := e.globals[g]; ok {
		return c
	}
	c := new(Value)
	t := deref(g.Type())
	*c = e.zero(t)
	if !inModule(g.Pkg) {
		// sentinel errors of packages whose initialisers are not run
		if types.Identical(t, e.w.errorIface()) && (strings.HasPrefix(g.Name(), "E") ||
			(g.Name() == "NotFound" && strings.HasSuffix(g.Pkg.Pkg.Path(), "protobuf/reflect/protoregistry"))) {
			p := new(Value)
			*p = &opaque{kind: "error", desc: g.Pkg.Pkg.Path() + "." + g.Name()}
			*c = iface{t: opaqueErrT, v: p}
		}
	}
	e.globals[g] = c
	return c
}

func (w *World) errorIface() types.Type {
	return types.Universe.Lookup("error").Type()
}

// initAll runs the variable initialisers of pkg and of the module packages it
// imports. Declared init() functions and foreign package initialisers are
// skipped (see DESIGN §3.1).
func (e *Exec) initAll(pkg *ssa.Package) {
	e.inInit = true
	e.initPkg(pkg)
	e.inInit = false
}

func (e *Exec) initPkg(p *ssa.Package) {
	if p == nil || e.inited[p] {
		return
	}
	e.inited[p] = true
	fn := p.Func("init")
	if fn != nil && fn.Blocks == nil {
		// dependency packages are built lazily; without this the first path of
		// a run would skip their variable initialisers
		p.Build()
	}
	if fn == nil || fn.Blocks == nil {
		return
	}
	base := &frame{e: e, th: e.threads[0]}
	e.callSSARaw(base, fn)
}
