package main

// Terms: the scalar values of the symbolic executor. Every Go integer is a
// bit-vector of its real width, booleans are Bool. Terms are hash-consed per
// TermStore (one store per worker), constant-folded eagerly, and printed to
// SMT-LIB2 as shared definitions.

import (
	"fmt"
	"math/bits"
	"strings"
)

type Op uint8

const (
	OpConst Op = iota // BV or Bool constant
	OpVar             // BV or Bool variable
	OpAdd
	OpSub
	OpMul
	OpUDiv
	OpSDiv
	OpURem
	OpSRem
	OpAnd
	OpOr
	OpXor
	OpShl
	OpLShr
	OpAShr
	OpBVNot
	OpNeg
	OpExtract // args[0], hi=aux1 lo=aux2
	OpZExt    // to width w
	OpSExt
	OpIte
	OpEq
	OpULt
	OpULe
	OpSLt
	OpSLe
	OpNot
	OpBAnd
	OpBOr
	OpUF     // uninterpreted function application: name, args; result BV(w)
	OpConcat // bit-vector concat (args[0] high)
)

var opNames = map[Op]string{
	OpAdd: "bvadd", OpSub: "bvsub", OpMul: "bvmul", OpUDiv: "bvudiv", OpSDiv: "bvsdiv",
	OpURem: "bvurem", OpSRem: "bvsrem", OpAnd: "bvand", OpOr: "bvor", OpXor: "bvxor",
	OpShl: "bvshl", OpLShr: "bvlshr", OpAShr: "bvashr", OpBVNot: "bvnot", OpNeg: "bvneg",
	OpIte: "ite", OpEq: "=", OpULt: "bvult", OpULe: "bvule", OpSLt: "bvslt", OpSLe: "bvsle",
	OpNot: "not", OpBAnd: "and", OpBOr: "or", OpConcat: "concat",
}

// Term is immutable once interned.
type Term struct {
	op   Op
	w    int // bit width; 0 = Bool
	val  uint64
	name string
	aux1 int
	aux2 int
	args []*Term
	id   int
}

func (t *Term) IsConst() bool { return t.op == OpConst }
func (t *Term) IsBool() bool  { return t.w == 0 }

func (t *Term) String() string {
	if t == nil {
		return "<nil-term>"
	}
	switch t.op {
	case OpConst:
		if t.w == 0 {
			if t.val != 0 {
				return "true"
			}
			return "false"
		}
		return fmt.Sprintf("%d:%d", int64(signExt(t.val, t.w)), t.w)
	case OpVar:
		return t.name
	case OpUF:
		s := make([]string, len(t.args))
		for i, a := range t.args {
			s[i] = a.String()
		}
		return t.name + "(" + strings.Join(s, ",") + ")"
	case OpExtract:
		return fmt.Sprintf("extract[%d:%d](%s)", t.aux1, t.aux2, t.args[0])
	case OpZExt:
		return fmt.Sprintf("zext%d(%s)", t.w, t.args[0])
	case OpSExt:
		return fmt.Sprintf("sext%d(%s)", t.w, t.args[0])
	}
	s := make([]string, len(t.args))
	for i, a := range t.args {
		s[i] = a.String()
	}
	return "(" + opNames[t.op] + " " + strings.Join(s, " ") + ")"
}

func mask(w int) uint64 {
	if w >= 64 {
		return ^uint64(0)
	}
	return (uint64(1) << uint(w)) - 1
}

func signExt(v uint64, w int) uint64 {
	if w >= 64 || w == 0 {
		return v
	}
	if v&(uint64(1)<<uint(w-1)) != 0 {
		return v | ^mask(w)
	}
	return v & mask(w)
}

type termKey struct {
	op         Op
	w          int
	val        uint64
	name       string
	aux1, aux2 int
	a0, a1, a2 int
	nargs      int
	rest       string
}

// TermStore interns terms. Not safe for concurrent use: one per worker.
type TermStore struct {
	tab    map[termKey]*Term
	nextID int
	True   *Term
	False  *Term
	vars   []*Term // declared variables, in creation order
	ctree  map[int]int
	ufs    map[string]ufSig
}

type ufSig struct {
	argw []int
	w    int
}

func NewTermStore() *TermStore {
	s := &TermStore{tab: map[termKey]*Term{}, ufs: map[string]ufSig{}}
	s.True = s.mk(&Term{op: OpConst, w: 0, val: 1})
	s.False = s.mk(&Term{op: OpConst, w: 0, val: 0})
	return s
}

func (s *TermStore) mk(t *Term) *Term {
	k := termKey{op: t.op, w: t.w, val: t.val, name: t.name, aux1: t.aux1, aux2: t.aux2, nargs: len(t.args)}
	if len(t.args) > 0 {
		k.a0 = t.args[0].id
	}
	if len(t.args) > 1 {
		k.a1 = t.args[1].id
	}
	if len(t.args) > 2 {
		k.a2 = t.args[2].id
	}
	if len(t.args) > 3 {
		var sb strings.Builder
		for _, a := range t.args[3:] {
			fmt.Fprintf(&sb, "%d,", a.id)
		}
		k.rest = sb.String()
	}
	if e, ok := s.tab[k]; ok {
		return e
	}
	s.nextID++
	t.id = s.nextID
	s.tab[k] = t
	if t.op == OpVar {
		s.vars = append(s.vars, t)
	}
	return t
}

func (s *TermStore) Const(w int, v uint64) *Term {
	return s.mk(&Term{op: OpConst, w: w, val: v & maskB(w)})
}
func (s *TermStore) Bool(b bool) *Term {
	if b {
		return s.True
	}
	return s.False
}
func (s *TermStore) Var(name string, w int) *Term {
	return s.mk(&Term{op: OpVar, w: w, name: name})
}

func (s *TermStore) UF(name string, w int, args ...*Term) *Term {
	if _, ok := s.ufs[name]; !ok {
		sig := ufSig{w: w}
		for _, a := range args {
			sig.argw = append(sig.argw, a.w)
		}
		s.ufs[name] = sig
	}
	return s.mk(&Term{op: OpUF, w: w, name: name, args: args})
}

// ---- evaluation of one operator on constants (also the folding core) ----

func evalOp(op Op, w int, aux1, aux2 int, a []uint64, aw []int) (uint64, bool) {
	switch op {
	case OpAdd:
		return (a[0] + a[1]) & mask(w), true
	case OpSub:
		return (a[0] - a[1]) & mask(w), true
	case OpMul:
		return (a[0] * a[1]) & mask(w), true
	case OpUDiv:
		if a[1] == 0 {
			return mask(w), true
		}
		return (a[0] / a[1]) & mask(w), true
	case OpURem:
		if a[1] == 0 {
			return a[0], true
		}
		return (a[0] % a[1]) & mask(w), true
	case OpSDiv:
		x, y := int64(signExt(a[0], w)), int64(signExt(a[1], w))
		if y == 0 {
			if x >= 0 {
				return mask(w), true
			}
			return 1, true
		}
		if y == -1 {
			return uint64(-x) & mask(w), true
		}
		return uint64(x/y) & mask(w), true
	case OpSRem:
		x, y := int64(signExt(a[0], w)), int64(signExt(a[1], w))
		if y == 0 {
			return a[0], true
		}
		if y == -1 {
			return 0, true
		}
		return uint64(x%y) & mask(w), true
	case OpAnd:
		return a[0] & a[1], true
	case OpOr:
		return a[0] | a[1], true
	case OpXor:
		return a[0] ^ a[1], true
	case OpShl:
		if a[1] >= uint64(w) {
			return 0, true
		}
		return (a[0] << a[1]) & mask(w), true
	case OpLShr:
		if a[1] >= uint64(w) {
			return 0, true
		}
		return (a[0] >> a[1]) & mask(w), true
	case OpAShr:
		x := int64(signExt(a[0], w))
		sh := a[1]
		if sh >= uint64(w) {
			sh = uint64(w - 1)
		}
		return uint64(x>>sh) & mask(w), true
	case OpBVNot:
		return (^a[0]) & mask(w), true
	case OpNeg:
		return (-a[0]) & mask(w), true
	case OpExtract:
		return (a[0] >> uint(aux2)) & mask(aux1-aux2+1), true
	case OpZExt:
		return a[0], true
	case OpSExt:
		return signExt(a[0], aw[0]) & mask(w), true
	case OpConcat:
		return ((a[0] << uint(aw[1])) | a[1]) & mask(w), true
	case OpIte:
		if a[0] != 0 {
			return a[1], true
		}
		return a[2], true
	case OpEq:
		return b2u(a[0] == a[1]), true
	case OpULt:
		return b2u(a[0] < a[1]), true
	case OpULe:
		return b2u(a[0] <= a[1]), true
	case OpSLt:
		return b2u(int64(signExt(a[0], aw[0])) < int64(signExt(a[1], aw[1]))), true
	case OpSLe:
		return b2u(int64(signExt(a[0], aw[0])) <= int64(signExt(a[1], aw[1]))), true
	case OpNot:
		return b2u(a[0] == 0), true
	case OpBAnd:
		for _, x := range a {
			if x == 0 {
				return 0, true
			}
		}
		return 1, true
	case OpBOr:
		for _, x := range a {
			if x != 0 {
				return 1, true
			}
		}
		return 0, true
	}
	return 0, false
}

func b2u(b bool) uint64 {
	if b {
		return 1
	}
	return 0
}

// App builds op(args...) with width w (0 for Bool results), folding constants
// and applying cheap identities.
func (s *TermStore) App(op Op, w int, args ...*Term) *Term {
	allc := true
	for _, a := range args {
		if a.op != OpConst {
			allc = false
			break
		}
	}
	if allc {
		av := make([]uint64, len(args))
		aw := make([]int, len(args))
		for i, a := range args {
			av[i], aw[i] = a.val, a.w
		}
		if v, ok := evalOp(op, w, 0, 0, av, aw); ok {
			return s.Const(w, v)
		}
	}
	// op(ite-tree with constant leaves, const) -> ite-tree with constant leaves: keeps arithmetic on small
	// case-valued terms (bits.Len64, varint size classes) out of the solver (no 64-bit dividers to bit-blast)
	if len(args) == 2 && distributable[op] {
		if args[1].op == OpConst && s.ctreeLeaves(args[0]) > 0 {
			c := args[1]
			return s.mapCTree(args[0], func(l *Term) *Term { return s.App(op, w, l, c) }, w)
		}
		if args[0].op == OpConst && s.ctreeLeaves(args[1]) > 0 {
			c := args[0]
			return s.mapCTree(args[1], func(l *Term) *Term { return s.App(op, w, c, l) }, w)
		}
	}
	switch op {
	case OpAdd:
		if isZero(args[0]) {
			return args[1]
		}
		if isZero(args[1]) {
			return args[0]
		}
		// (x + c1) + c2 -> x + (c1+c2)
		if args[1].op == OpConst && args[0].op == OpAdd && args[0].args[1].op == OpConst {
			return s.App(OpAdd, w, args[0].args[0], s.Const(w, args[0].args[1].val+args[1].val))
		}
		if args[0].op == OpConst && args[1].op != OpConst {
			return s.App(OpAdd, w, args[1], args[0])
		}
	case OpSub:
		if isZero(args[1]) {
			return args[0]
		}
		if args[0] == args[1] {
			return s.Const(w, 0)
		}
		if args[1].op == OpConst {
			return s.App(OpAdd, w, args[0], s.Const(w, -args[1].val))
		}
	case OpMul:
		if isZero(args[0]) || isZero(args[1]) {
			return s.Const(w, 0)
		}
		if isOne(args[0]) {
			return args[1]
		}
		if isOne(args[1]) {
			return args[0]
		}
	case OpAnd:
		if isZero(args[0]) || isZero(args[1]) {
			return s.Const(w, 0)
		}
		if args[0] == args[1] {
			return args[0]
		}
		if args[1].op == OpConst && args[1].val == mask(w) {
			return args[0]
		}
		if args[0].op == OpConst && args[0].val == mask(w) {
			return args[1]
		}
	case OpOr, OpXor:
		if isZero(args[0]) {
			return args[1]
		}
		if isZero(args[1]) {
			return args[0]
		}
		if op == OpOr && args[0] == args[1] {
			return args[0]
		}
		if op == OpXor && args[0] == args[1] {
			return s.Const(w, 0)
		}
	case OpShl, OpLShr, OpAShr:
		if isZero(args[1]) {
			return args[0]
		}
		if isZero(args[0]) {
			return args[0]
		}
	case OpURem:
		if isOne(args[1]) {
			return s.Const(w, 0)
		}
	case OpSRem:
		if isOne(args[1]) {
			return s.Const(w, 0)
		}
	case OpUDiv, OpSDiv:
		if isOne(args[1]) {
			return args[0]
		}
	case OpIte:
		if args[0].op == OpConst {
			if args[0].val != 0 {
				return args[1]
			}
			return args[2]
		}
		if args[1] == args[2] {
			return args[1]
		}
		if w == 0 {
			// boolean ite with constant arms
			if args[1] == s.True && args[2] == s.False {
				return args[0]
			}
			if args[1] == s.False && args[2] == s.True {
				return s.Not(args[0])
			}
		}
	case OpEq:
		if args[0] == args[1] {
			return s.True
		}
		if args[0].w == 0 {
			if args[1].op == OpConst {
				if args[1].val != 0 {
					return args[0]
				}
				return s.Not(args[0])
			}
			if args[0].op == OpConst {
				if args[0].val != 0 {
					return args[1]
				}
				return s.Not(args[1])
			}
		}
		// ite(c,k1,k2) == k  with constants
		if args[1].op == OpConst && args[0].op == OpIte && args[0].args[1].op == OpConst && args[0].args[2].op == OpConst {
			it := args[0]
			a, b := it.args[1].val == args[1].val, it.args[2].val == args[1].val
			switch {
			case a && b:
				return s.True
			case a && !b:
				return it.args[0]
			case !a && b:
				return s.Not(it.args[0])
			default:
				return s.False
			}
		}
		if args[0].op == OpConst && args[1].op != OpConst {
			return s.App(OpEq, 0, args[1], args[0])
		}
		// zext(x) == c
		if args[1].op == OpConst && (args[0].op == OpZExt) {
			x := args[0].args[0]
			if args[1].val&^mask(x.w) != 0 {
				return s.False
			}
			return s.App(OpEq, 0, x, s.Const(x.w, args[1].val))
		}
	case OpULt:
		if args[0] == args[1] {
			return s.False
		}
		if isZero(args[1]) {
			return s.False
		}
	case OpULe:
		if args[0] == args[1] {
			return s.True
		}
		if isZero(args[0]) {
			return s.True
		}
	case OpSLt:
		if args[0] == args[1] {
			return s.False
		}
	case OpSLe:
		if args[0] == args[1] {
			return s.True
		}
	case OpNot:
		if args[0].op == OpNot {
			return args[0].args[0]
		}
	case OpBAnd:
		out := args[:0:0]
		for _, a := range args {
			if a == s.False {
				return s.False
			}
			if a == s.True {
				continue
			}
			dup := false
			for _, o := range out {
				if o == a {
					dup = true
				}
			}
			if !dup {
				out = append(out, a)
			}
		}
		if len(out) == 0 {
			return s.True
		}
		if len(out) == 1 {
			return out[0]
		}
		args = out
	case OpBOr:
		out := args[:0:0]
		for _, a := range args {
			if a == s.True {
				return s.True
			}
			if a == s.False {
				continue
			}
			dup := false
			for _, o := range out {
				if o == a {
					dup = true
				}
			}
			if !dup {
				out = append(out, a)
			}
		}
		if len(out) == 0 {
			return s.False
		}
		if len(out) == 1 {
			return out[0]
		}
		args = out
	}
	return s.mk(&Term{op: op, w: w, args: append([]*Term(nil), args...)})
}

var distributable = map[Op]bool{OpAdd: true, OpSub: true, OpMul: true, OpUDiv: true, OpSDiv: true, OpURem: true, OpSRem: true,
	OpAnd: true, OpOr: true, OpXor: true, OpShl: true, OpLShr: true, OpAShr: true,
	OpEq: true, OpULt: true, OpULe: true, OpSLt: true, OpSLe: true}

// ctreeLeaves returns the number of leaves of t if t is an ite tree (at least one ite) all of whose leaves are
// constants and which has at most 130 leaves; 0 otherwise.
func (s *TermStore) ctreeLeaves(t *Term) int {
	if t.op != OpIte || t.w == 0 {
		return 0
	}
	if s.ctree == nil {
		s.ctree = map[int]int{}
	}
	if n, ok := s.ctree[t.id]; ok {
		return n
	}
	n := 0
	for _, a := range t.args[1:] {
		switch {
		case a.op == OpConst:
			n++
		default:
			k := s.ctreeLeaves(a)
			if k == 0 {
				s.ctree[t.id] = 0
				return 0
			}
			n += k
		}
	}
	if n > 130 {
		n = 0
	}
	s.ctree[t.id] = n
	return n
}

func (s *TermStore) mapCTree(t *Term, f func(*Term) *Term, w int) *Term {
	if t.op == OpConst {
		return f(t)
	}
	a := s.mapCTree(t.args[1], f, w)
	b := s.mapCTree(t.args[2], f, w)
	return s.App(OpIte, w, t.args[0], a, b)
}

func isZero(t *Term) bool { return t.op == OpConst && t.val == 0 }
func isOne(t *Term) bool  { return t.op == OpConst && t.val == 1 }

func (s *TermStore) Not(a *Term) *Term       { return s.App(OpNot, 0, a) }
func (s *TermStore) And(a ...*Term) *Term    { return s.App(OpBAnd, 0, a...) }
func (s *TermStore) Or(a ...*Term) *Term     { return s.App(OpBOr, 0, a...) }
func (s *TermStore) Eq(a, b *Term) *Term     { return s.App(OpEq, 0, a, b) }
func (s *TermStore) Ite(c, a, b *Term) *Term { return s.App(OpIte, a.w, c, a, b) }

func (s *TermStore) Extract(a *Term, hi, lo int) *Term {
	if lo == 0 && hi == a.w-1 {
		return a
	}
	w := hi - lo + 1
	if a.op == OpConst {
		return s.Const(w, a.val>>uint(lo))
	}
	if s.ctreeLeaves(a) > 0 {
		return s.mapCTree(a, func(l *Term) *Term { return s.Extract(l, hi, lo) }, w)
	}
	if (a.op == OpZExt || a.op == OpSExt) && hi < a.args[0].w {
		return s.Extract(a.args[0], hi, lo)
	}
	return s.mk(&Term{op: OpExtract, w: w, aux1: hi, aux2: lo, args: []*Term{a}})
}

func (s *TermStore) ZExt(a *Term, w int) *Term {
	if a.w == w {
		return a
	}
	if a.op == OpConst {
		return s.Const(w, a.val)
	}
	if a.op == OpZExt {
		return s.ZExt(a.args[0], w)
	}
	if s.ctreeLeaves(a) > 0 {
		return s.mapCTree(a, func(l *Term) *Term { return s.ZExt(l, w) }, w)
	}
	return s.mk(&Term{op: OpZExt, w: w, args: []*Term{a}})
}

func (s *TermStore) SExt(a *Term, w int) *Term {
	if a.w == w {
		return a
	}
	if a.op == OpConst {
		return s.Const(w, signExt(a.val, a.w))
	}
	if s.ctreeLeaves(a) > 0 {
		return s.mapCTree(a, func(l *Term) *Term { return s.SExt(l, w) }, w)
	}
	return s.mk(&Term{op: OpSExt, w: w, args: []*Term{a}})
}

// Resize converts a to width w, extending by the signedness of the source.
func (s *TermStore) Resize(a *Term, w int, srcSigned bool) *Term {
	switch {
	case a.w == w:
		return a
	case a.w > w:
		return s.Extract(a, w-1, 0)
	case srcSigned:
		return s.SExt(a, w)
	default:
		return s.ZExt(a, w)
	}
}

// ---- evaluation under a model ----

type Model map[string]uint64

// Eval evaluates t under m; variables missing from m are 0. UF applications
// are evaluated through ufvals (keyed by printed application) when present.
func (s *TermStore) Eval(t *Term, m Model, memo map[int]uint64) uint64 {
	if t.op == OpConst {
		return t.val
	}
	if v, ok := memo[t.id]; ok {
		return v
	}
	var v uint64
	switch t.op {
	case OpVar:
		v = m[t.name] & maskB(t.w)
	case OpUF:
		// Deterministic stand-in consistent with injectivity: mix of args.
		key := t.name
		for _, a := range t.args {
			key += fmt.Sprintf(",%d", s.Eval(a, m, memo))
		}
		if mv, ok := m[fmt.Sprintf("#%d", t.id)]; ok {
			v = mv
		} else {
			var h uint64 = 1469598103934665603
			for i := 0; i < len(key); i++ {
				h ^= uint64(key[i])
				h *= 1099511628211
			}
			v = h & mask(t.w)
		}
	default:
		av := make([]uint64, len(t.args))
		aw := make([]int, len(t.args))
		for i, a := range t.args {
			av[i], aw[i] = s.Eval(a, m, memo), a.w
		}
		v, _ = evalOp(t.op, t.w, t.aux1, t.aux2, av, aw)
		if t.op == OpExtract {
			v = (av[0] >> uint(t.aux2)) & mask(t.aux1-t.aux2+1)
		}
	}
	memo[t.id] = v
	return v
}

func maskB(w int) uint64 {
	if w == 0 {
		return 1
	}
	return mask(w)
}

// ---- SMT-LIB printing ----

func sortStr(w int) string {
	if w == 0 {
		return "Bool"
	}
	return fmt.Sprintf("(_ BitVec %d)", w)
}

func constStr(t *Term) string {
	if t.w == 0 {
		if t.val != 0 {
			return "true"
		}
		return "false"
	}
	if t.w%4 == 0 {
		return fmt.Sprintf("#x%0*x", t.w/4, t.val)
	}
	return fmt.Sprintf("#b%0*b", t.w, t.val)
}

func smtName(n string) string {
	return "|" + strings.NewReplacer("|", "_", "\\", "_").Replace(n) + "|"
}

// Ref returns the SMT reference of t, emitting definitions of t and its
// subterms to sb for anything not yet in defined.
func (s *TermStore) Ref(t *Term, defined map[int]bool, sb *strings.Builder) string {
	switch t.op {
	case OpConst:
		return constStr(t)
	case OpVar:
		if !defined[t.id] {
			defined[t.id] = true
			fmt.Fprintf(sb, "(declare-const %s %s)\n", smtName(t.name), sortStr(t.w))
		}
		return smtName(t.name)
	}
	nm := fmt.Sprintf("t%d", t.id)
	if defined[t.id] {
		return nm
	}
	refs := make([]string, len(t.args))
	for i, a := range t.args {
		refs[i] = s.Ref(a, defined, sb)
	}
	var body string
	switch t.op {
	case OpExtract:
		body = fmt.Sprintf("((_ extract %d %d) %s)", t.aux1, t.aux2, refs[0])
	case OpZExt:
		body = fmt.Sprintf("((_ zero_extend %d) %s)", t.w-t.args[0].w, refs[0])
	case OpSExt:
		body = fmt.Sprintf("((_ sign_extend %d) %s)", t.w-t.args[0].w, refs[0])
	case OpUF:
		key := -1 - len(t.name)*1000003
		_ = key
		ufk := "uf:" + t.name
		if !definedUF(defined, ufk) {
			sig := s.ufs[t.name]
			as := make([]string, len(sig.argw))
			for i, w := range sig.argw {
				as[i] = sortStr(w)
			}
			fmt.Fprintf(sb, "(declare-fun %s (%s) %s)\n", smtName(t.name), strings.Join(as, " "), sortStr(sig.w))
			markUF(defined, ufk)
		}
		body = "(" + smtName(t.name) + " " + strings.Join(refs, " ") + ")"
	default:
		body = "(" + opNames[t.op] + " " + strings.Join(refs, " ") + ")"
	}
	defined[t.id] = true
	fmt.Fprintf(sb, "(define-fun %s () %s %s)\n", nm, sortStr(t.w), body)
	return nm
}

// UF declarations are tracked in the same map under negative keys derived
// from the name.
func ufKey(k string) int {
	h := 0
	for i := 0; i < len(k); i++ {
		h = h*131 + int(k[i])
	}
	if h > 0 {
		h = -h
	}
	return h - 1
}
func definedUF(d map[int]bool, k string) bool { return d[ufKey(k)] }
func markUF(d map[int]bool, k string)         { d[ufKey(k)] = true }

func log2ceil(n int) int {
	if n <= 1 {
		return 0
	}
	return bits.Len(uint(n - 1))
}
