package main

// Per-path state: path condition, decisions (prefix re-execution), nondet
// symbols, findings.

import (
	"fmt"
	"io"
	"sort"
	"sync"

	"golang.org/x/tools/go/ssa"
)

type Config struct {
	MaxSteps      int
	MaxDepth      int
	MaxAlloc      int
	DetSched      bool
	MarkOnly      bool // preemption only at zzrt.Mark points (message boundaries)
	MaxConcretize int
	MaxDecisions  int
	Preempt       int
	Trace         bool
	TimeoutMs     int
}

func defaultConfig() Config {
	return Config{MaxSteps: 3_000_000, MaxDepth: 400, MaxAlloc: 1 << 16, MaxConcretize: 80, MaxDecisions: 4000, Preempt: 2, TimeoutMs: 20000}
}

// Decision is one entry of a path's decision vector.
type Decision struct {
	Kind   byte    `json:"k"` // b branch, c choose, v value, s schedule, m map order
	Val    int64   `json:"v"`
	Forced bool    `json:"f,omitempty"`
	Excl   []int64 `json:"x,omitempty"` // pending: pick a value not in Excl
	N      int     `json:"n,omitempty"` // number of alternatives (c,s,m)
}

type nondetRec struct {
	Key  string
	Term *Term
}

type Finding struct {
	Harness   string            `json:"harness"`
	Kind      string            `json:"kind"` // assert, panic, deadlock
	Label     string            `json:"label"`
	Detail    string            `json:"detail,omitempty"`
	Tags      []string          `json:"tags,omitempty"`
	Nondet    map[string]uint64 `json:"nondet"`
	Choices   []int             `json:"choices"`
	Sched     []int             `json:"sched"`
	Decisions []Decision        `json:"decisions"`
	Stack     []string          `json:"stack,omitempty"`
}

type Exec struct {
	w   *World
	st  *TermStore
	sv  *Solver
	cfg Config

	harness string
	globals map[*ssa.Global]*Value
	inited  map[*ssa.Package]bool

	pc         []*Term
	model      Model
	modelValid bool
	evalMemo   map[int]uint64

	prefix []Decision
	pos    int
	trace  []Decision
	fork   func([]Decision)

	steps     int
	nondetOcc map[string]int
	nondets   []nondetRec
	tags      []string
	reached   []string
	findings  []Finding
	obs       []obsRec
	inconcl   []string
	fnSeen    map[*ssa.Function]int
	ufApps    []*Term

	// threads
	threads     []*thread
	cur         *thread
	preemptions int
	aborted     bool
	abortMu     sync.Mutex
	endState    *pathEnd
	wg          sync.WaitGroup
	chanSeq     int

	inInit        bool
	params        map[string]int
	mapAllOrders  bool
	mapRotate     int // every map range starts mapRotate slots into the insertion order (zzrt.MapRotate)
	lastRecovered *targetPanic
	traceW        io.Writer
	race          *raceState
	clock         *Term
	timers        []*timerRec
}

type obsRec struct {
	Label string
	Vals  []Value
}

func (e *Exec) noteFn(fn *ssa.Function) {
	e.fnSeen[fn]++
}

// ---- path condition & model ----

func (e *Exec) addPC(c *Term) {
	if c == e.st.True {
		return
	}
	e.pc = append(e.pc, c)
	if e.modelValid {
		if e.evalBool(c) == false {
			e.modelValid = false
		}
	}
}

func (e *Exec) evalBool(c *Term) bool {
	return e.st.Eval(c, e.model, e.evalMemo) != 0
}

func (e *Exec) setModel(m Model) {
	e.model = m
	e.modelValid = m != nil
	e.evalMemo = map[int]uint64{}
}

// check asks the solver about pc ∧ extra.
func (e *Exec) check(extra ...*Term) (Verdict, Model) {
	conds := make([]*Term, 0, len(e.pc)+len(extra))
	conds = append(conds, e.pc...)
	conds = append(conds, extra...)
	want := make([]*Term, 0, len(e.nondets)+len(e.ufApps)+1)
	for _, r := range e.nondets {
		want = append(want, r.Term)
	}
	want = append(want, e.ufApps...)
	want = append(want, e.st.True) // non-nil even when empty
	v, m := e.sv.Check(conds, want)
	if v == Inconclusive {
		msg := "solver inconclusive"
		if n := len(e.sv.Errors); n > 0 {
			msg += ": " + e.sv.Errors[n-1]
		}
		e.inconcl = append(e.inconcl, msg)
	}
	return v, m
}

func (e *Exec) ensureModel() {
	if e.modelValid {
		return
	}
	v, m := e.check()
	switch v {
	case Sat:
		e.setModel(m)
	case Unsat:
		e.end("pruned", "path condition infeasible")
	default:
		// keep going without a model
		e.setModel(Model{})
		e.modelValid = false
	}
}

func (e *Exec) nextDecision(kind byte) *Decision {
	if e.pos < len(e.prefix) {
		d := &e.prefix[e.pos]
		if d.Kind != kind {
			e.end("internal", fmt.Sprintf("decision replay diverged at %d: want %c got %c", e.pos, d.Kind, kind))
		}
		e.pos++
		return d
	}
	if len(e.trace) > e.cfg.MaxDecisions {
		e.end("unwound", "decision budget exceeded")
	}
	return nil
}

func (e *Exec) record(d Decision) {
	e.trace = append(e.trace, d)
}

func (e *Exec) pushSibling(d Decision) {
	p := make([]Decision, len(e.trace)+1)
	copy(p, e.trace)
	p[len(e.trace)] = d
	e.fork(p)
}

// branch decides a symbolic condition, forking when both sides are feasible.
func (e *Exec) branch(c *Term) bool {
	st := e.st
	if c.IsConst() {
		return c.val != 0
	}
	if d := e.nextDecision('b'); d != nil {
		if d.Excl == nil {
			v := d.Val == 1
			e.record(Decision{Kind: 'b', Val: d.Val, Forced: d.Forced})
			if v {
				e.addPC(c)
			} else {
				e.addPC(st.Not(c))
			}
			return v
		}
	}
	e.ensureModel()
	var first bool
	if e.modelValid && len(e.ufApps) == 0 {
		first = e.evalBool(c)
	} else {
		first = true
		v, m := e.check(c)
		if v == Unsat {
			first = false
		} else if v == Sat {
			e.setModel(m)
		}
	}
	lit := func(b bool) *Term {
		if b {
			return c
		}
		return st.Not(c)
	}
	v, _ := e.check(lit(!first))
	other := v != Unsat
	d := Decision{Kind: 'b', Val: b2i(first), Forced: !other}
	if other {
		e.pushSibling(Decision{Kind: 'b', Val: b2i(!first)})
	}
	e.record(d)
	e.addPC(lit(first))
	return first
}

func (e *Exec) branchT(c *Term) bool { return e.branch(c) }

func b2i(b bool) int64 {
	if b {
		return 1
	}
	return 0
}

// choose picks one of n always-feasible alternatives.
func (e *Exec) choose(n int, kind byte) int {
	if n <= 1 {
		return 0
	}
	if d := e.nextDecision(kind); d != nil {
		if int(d.Val) >= n {
			e.end("internal", fmt.Sprintf("choose replay: %d of %d", d.Val, n))
		}
		e.record(Decision{Kind: kind, Val: d.Val, N: n})
		return int(d.Val)
	}
	for i := n - 1; i >= 1; i-- {
		e.pushSibling(Decision{Kind: kind, Val: int64(i), N: n})
	}
	e.record(Decision{Kind: kind, Val: 0, N: n})
	return 0
}

// concretize forks over the feasible values of t and returns the chosen constant.
func (e *Exec) concretize(t *Term) *Term {
	st := e.st
	if t.IsConst() {
		return t
	}
	var excl []int64
	if d := e.nextDecision('v'); d != nil {
		if d.Excl == nil {
			c := st.Const(t.w, uint64(d.Val))
			e.record(Decision{Kind: 'v', Val: d.Val})
			e.addPC(st.Eq(t, c))
			return c
		}
		excl = d.Excl
	}
	if len(excl) >= e.cfg.MaxConcretize {
		e.end("unwound", fmt.Sprintf("more than %d feasible values at a concretisation point", e.cfg.MaxConcretize))
	}
	var val uint64
	if len(excl) == 0 {
		e.ensureModel()
	}
	if len(excl) == 0 && e.modelValid && len(e.ufApps) == 0 {
		val = e.st.Eval(t, e.model, e.evalMemo)
	} else {
		ne := make([]*Term, len(excl))
		for i, x := range excl {
			ne[i] = st.Not(st.Eq(t, st.Const(t.w, uint64(x))))
		}
		v, m := e.check(ne...)
		switch v {
		case Unsat:
			e.end("pruned", "no further value")
		case Inconclusive:
			e.end("unwound", "solver inconclusive while enumerating values")
		}
		e.setModel(m)
		val = e.st.Eval(t, e.model, e.evalMemo)
	}
	nx := append(append([]int64(nil), excl...), int64(val))
	// a sibling path is only worth re-executing if a further value exists (most concretisation points - buffer
	// offsets that are determined by the path condition - have exactly one)
	more := make([]*Term, len(nx))
	for i, x := range nx {
		more[i] = st.Not(st.Eq(t, st.Const(t.w, uint64(x))))
	}
	if v, _ := e.check(more...); v != Unsat {
		e.pushSibling(Decision{Kind: 'v', Excl: nx})
	}
	e.record(Decision{Kind: 'v', Val: int64(val)})
	c := st.Const(t.w, val)
	e.addPC(st.Eq(t, c))
	return c
}

// ---- nondeterministic inputs ----

func (e *Exec) nondetKey(name string) string {
	k := e.nondetOcc[name]
	e.nondetOcc[name] = k + 1
	return fmt.Sprintf("%s#%d", name, k)
}

func (e *Exec) nondet(name string, w int) *Term {
	key := e.nondetKey(name)
	t := e.st.Var(key, w)
	e.nondets = append(e.nondets, nondetRec{key, t})
	return t
}

// ---- findings ----

func (e *Exec) tape(m Model) (map[string]uint64, []int, []int) {
	nd := map[string]uint64{}
	memo := map[int]uint64{}
	for _, r := range e.nondets {
		nd[r.Key] = e.st.Eval(r.Term, m, memo)
	}
	var ch, sc []int
	for _, d := range e.trace {
		switch d.Kind {
		case 'c':
			ch = append(ch, int(d.Val))
		case 's':
			sc = append(sc, int(d.Val))
		}
	}
	return nd, ch, sc
}

func (e *Exec) addFinding(kind, label, detail string, m Model, stack []string) {
	nd, ch, sc := e.tape(m)
	tags := append([]string(nil), e.tags...)
	sort.Strings(tags)
	e.findings = append(e.findings, Finding{
		Harness: e.harness, Kind: kind, Label: label, Detail: detail, Tags: tags,
		Nondet: nd, Choices: ch, Sched: sc, Decisions: append([]Decision(nil), e.trace...), Stack: stack,
	})
}

// assert: the property check. Records a finding when ¬cond is feasible and
// continues under cond.
func (e *Exec) assert(cond *Term, label string) {
	st := e.st
	if cond == st.True {
		return
	}
	if cond == st.False {
		e.ensureModel()
		e.addFinding("assert", label, "", e.model, nil)
		e.end("violation-stop", label)
	}
	v, m := e.check(st.Not(cond))
	switch v {
	case Sat:
		e.addFinding("assert", label, "", m, nil)
	case Inconclusive:
		e.inconcl = append(e.inconcl, "assert "+label+" undecided")
	}
	e.addPC(cond)
	if v != Unsat {
		// does the path continue?
		v2, m2 := e.check()
		if v2 == Unsat {
			e.end("violation-stop", label)
		}
		if v2 == Sat {
			e.setModel(m2)
		}
	}
}

func (e *Exec) assume(cond *Term) {
	if cond == e.st.True {
		return
	}
	if cond == e.st.False {
		e.end("pruned", "assume(false)")
	}
	e.addPC(cond)
	if !e.modelValid {
		v, m := e.check()
		if v == Unsat {
			e.end("pruned", "assumption infeasible")
		}
		if v == Sat {
			e.setModel(m)
		}
	}
}
