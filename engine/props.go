package main

func cmdRun(args []string) int      { return 2 }
func cmdSelftest(args []string) int { return 0 }
