package main

// Property runner: view -> load -> explore every harness of the property ->
// replay candidate violations natively -> translation-validation sample ->
// evidence -> exit code.

import (
	"bufio"
	"encoding/json"
	"flag"
	"fmt"
	"os"
	"path/filepath"
	"runtime"
	"sort"
	"strconv"
	"strings"
	"sync"
	"time"
)

type PropSpec struct {
	ID          string
	Harnesses   func(tier string) []HarnessSpec
	Assumptions []string
	Outside     []string // what lies outside the bounds / claim
	Bounds      func(tier string) string
}

type knownEntry struct {
	Status string // known | fixed
	Prop   string
	Label  string
	What   string
	Commit string
}

func loadKnown() []knownEntry {
	f, err := os.Open(filepath.Join(verifDir, "KNOWN_FINDINGS.txt"))
	if err != nil {
		return nil
	}
	defer f.Close()
	var out []knownEntry
	sc := bufio.NewScanner(f)
	for sc.Scan() {
		l := strings.TrimSpace(sc.Text())
		switch {
		case strings.HasPrefix(l, "known:"):
			// known: property=C07 label=<label> what=<text>
			rest := strings.TrimSpace(strings.TrimPrefix(l, "known:"))
			e := knownEntry{Status: "known"}
			if i := strings.Index(rest, " what="); i >= 0 {
				e.What = rest[i+6:]
				rest = rest[:i]
			}
			for _, f := range strings.Fields(rest) {
				if strings.HasPrefix(f, "property=") {
					e.Prop = f[9:]
				}
				if strings.HasPrefix(f, "label=") {
					e.Label = f[6:]
				}
			}
			out = append(out, e)
		case strings.HasPrefix(l, "fixed:"):
			rest := strings.Fields(strings.TrimPrefix(l, "fixed:"))
			e := knownEntry{Status: "fixed"}
			if len(rest) >= 2 {
				e.Prop = strings.TrimPrefix(rest[0], "property=")
				e.Commit = rest[1]
				e.What = strings.Join(rest[2:], " ")
			}
			out = append(out, e)
		}
	}
	return out
}

func cmdRun(args []string) int {
	if len(args) < 1 {
		usage()
	}
	id := args[0]
	fs := flag.NewFlagSet("run", flag.ExitOnError)
	tier := fs.String("tier", envOr("VERIF_TIER", "quick"), "quick|thorough")
	seed := fs.Int("seed", 0, "seed")
	workers := fs.Int("workers", runtime.NumCPU(), "workers")
	fs.Parse(args[1:])
	if s := os.Getenv("VERIF_SEED"); s != "" && *seed == 0 {
		*seed, _ = strconv.Atoi(s)
	}
	spec, ok := propTable[id]
	if !ok {
		fmt.Fprintf(os.Stderr, "unknown property %s\n", id)
		return 2
	}
	defer cleanupScratch()
	return runProperty(spec, *tier, *seed, *workers)
}

type harnessReport struct {
	Name        string         `json:"harness"`
	Params      map[string]int `json:"params"`
	Preempt     int            `json:"preemption_bound,omitempty"`
	Paths       int            `json:"paths"`
	Outcomes    map[string]int `json:"outcomes"`
	States      int            `json:"states"`
	Transitions int            `json:"transitions"`
	Steps       int64          `json:"ssa_instructions_executed"`
	Queries     int            `json:"solver_queries"`
	MemoHits    int            `json:"solver_memo_hits"`
	SolverS     float64        `json:"solver_s"`
	WallS       float64        `json:"wall_s"`
	Witnesses   map[string]int `json:"witnesses_reached"`
	Missing     []string       `json:"witnesses_missing,omitempty"`
	Unsupported map[string]int `json:"unsupported,omitempty"`
	Unwound     map[string]int `json:"outside_bound_paths,omitempty"`
	Internal    map[string]int `json:"internal_errors,omitempty"`
	Inconcl     map[string]int `json:"inconclusive,omitempty"`
	Truncated   bool           `json:"truncated,omitempty"`
	MaxThreads  int            `json:"max_threads,omitempty"`
}

func runProperty(spec *PropSpec, tier string, seed, workers int) int {
	t0 := time.Now()
	hs := spec.Harnesses(tier)
	pkgset := map[string]bool{}
	for _, h := range hs {
		pkgset[h.Pkg] = true
	}
	var pkgs []string
	for p := range pkgset {
		pkgs = append(pkgs, p)
	}
	sort.Strings(pkgs)
	ev := map[string]interface{}{}
	var lines []string
	say := func(format string, a ...interface{}) {
		l := fmt.Sprintf(format, a...)
		lines = append(lines, l)
		fmt.Println(l)
	}
	inconclusive := []string{}
	violations := 0
	var reports []harnessReport
	fns := map[string]int{}
	var samples []interface{}
	tvOK, tvBad := 0, 0
	knownSeen := map[string]bool{}
	var unconfirmed []string
	var violationTapes []string
	totalStates, totalTrans := 0, 0
	var rewritten []string
	xcCompared, xcUndecided, xcNote := 0, 0, ""
	var xcDisagree []string
	var xcWG sync.WaitGroup
	var xcMu sync.Mutex

	view, world, dropped, err := loadIsolated(pkgs)
	if view != nil {
		rewritten = view.Rewritten
	}
	for _, f := range dropped {
		say("NOTE property=%s: harness file %s does not compile against the current tree and is left out", spec.ID, f)
	}
	if err != nil {
		if _, isBuild := err.(*buildError); isBuild {
			say("INCONCLUSIVE harness-build property=%s: the harness does not compile against the current tree:\n%s", spec.ID, err)
			inconclusive = append(inconclusive, "harness-build: "+firstLine(err.Error()))
		} else {
			say("INCONCLUSIVE load property=%s: %v", spec.ID, err)
			inconclusive = append(inconclusive, "load: "+firstLine(err.Error()))
		}
	}
	known := loadKnown()
	if world != nil {
		for hi, h := range hs {
			h.QueryLog = filepath.Join(scratch(), fmt.Sprintf("qlog-%d.smt2", hi))
			// every new kind of candidate violation is replayed natively while the exploration continues; the
			// first one that reproduces and is not a known finding ends the exploration of this harness early
			// (a changed tree can have vastly more paths than the unchanged one)
			type rres struct{ res, out string }
			var rmu sync.Mutex
			replayed := map[string]rres{}
			hh := h
			replayOf := func(f *Finding, maxThreads int) (string, string) {
				k := findingKey(f)
				rmu.Lock()
				if r, ok := replayed[k]; ok {
					rmu.Unlock()
					return r.res, r.out
				}
				rmu.Unlock()
				tp := tapeOf(hh, f)
				tp.Prop = spec.ID
				attempts := 1
				if maxThreads > 1 || f.Kind != "assert" {
					attempts = 3
				}
				if hh.ReplayAttempts > 0 {
					attempts = hh.ReplayAttempts
				}
				var res, out string
				if f.Kind == "race" {
					res, out = "reproduced", "(data race reported by the executor's happens-before detector; no native confirmation possible)"
					if !hh.TrustRace {
						res = "not-reproduced(race)"
					}
				} else {
					res, out = replayTape(tp, attempts)
				}
				rmu.Lock()
				replayed[k] = rres{res, out}
				rmu.Unlock()
				return res, out
			}
			h.OnNewFinding = func(f *Finding) bool {
				res, _ := replayOf(f, 2)
				if res != "reproduced" {
					return false
				}
				lbl := findingLabel(hh, f)
				for k := range known {
					if known[k].Status == "known" && known[k].Prop == spec.ID && known[k].Label == lbl {
						return false
					}
				}
				return true
			}
			st, err := explore(world, h, workers)
			if err == nil {
				budget := 25 * time.Second
				if tier == "thorough" {
					budget = 120 * time.Second
				}
				// the second solver replays this harness's query log in the background while the next harness runs
				xcWG.Add(1)
				go func(path, fn string) {
					defer xcWG.Done()
					c, u, dis, xerr := crossCheck(path, budget)
					xcMu.Lock()
					defer xcMu.Unlock()
					xcCompared += c
					xcUndecided += u
					for _, d := range dis {
						xcDisagree = append(xcDisagree, fmt.Sprintf("harness=%s %s", fn, d))
					}
					if xerr != nil && !os.IsNotExist(xerr) {
						xcNote = xerr.Error()
					}
					os.Remove(path)
				}(h.QueryLog, h.Func)
			}
			if err != nil {
				say("INCONCLUSIVE explore %s: %v", h.Name, err)
				inconclusive = append(inconclusive, h.Name+": "+firstLine(err.Error()))
				continue
			}
			rep := harnessReport{Name: h.Name, Params: h.Params, Preempt: h.Preempt, Paths: st.Paths, Outcomes: st.Outcomes, States: st.States,
				Transitions: st.Transitions, Steps: st.Steps, Queries: st.Queries, MemoHits: st.MemoHits, SolverS: st.SolverTime.Seconds(),
				WallS: st.Wall.Seconds(), Witnesses: st.Reached, Unsupported: st.Unsupported, Unwound: st.Unwound, Internal: st.Internal,
				Inconcl: st.Inconcl, Truncated: st.Truncated, MaxThreads: st.MaxThreads}
			totalStates += st.States
			totalTrans += st.Transitions
			for _, wl := range h.Witnesses {
				if st.Reached[wl] == 0 {
					rep.Missing = append(rep.Missing, wl)
				}
			}
			for k, v := range st.Fns {
				fns[k] += v
			}
			for _, s := range st.Samples {
				s["harness"] = h.Name
				if len(samples) < 12 {
					samples = append(samples, s)
				}
			}
			if len(rep.Missing) > 0 {
				inconclusive = append(inconclusive, fmt.Sprintf("%s: witnesses not reached %v (vacuity guard)", h.Name, rep.Missing))
			}
			if len(st.Unsupported) > 0 {
				inconclusive = append(inconclusive, fmt.Sprintf("%s: %d unsupported path ends", h.Name, sumMap(st.Unsupported)))
			}
			if len(st.Internal) > 0 {
				inconclusive = append(inconclusive, fmt.Sprintf("%s: %d internal executor errors", h.Name, sumMap(st.Internal)))
			}
			if len(st.Inconcl) > 0 {
				inconclusive = append(inconclusive, fmt.Sprintf("%s: %d solver-inconclusive queries", h.Name, sumMap(st.Inconcl)))
			}
			if st.Truncated {
				inconclusive = append(inconclusive, fmt.Sprintf("%s: exploration truncated by path/time limit (reduced bound)", h.Name))
			}
			if st.StoppedOnViolation {
				say("exploration of %s stopped early: a reproduced violation that is not a known finding was found", h.Name)
			}
			if n := sumMap(st.Unwound); n > 0 {
				inconclusive = append(inconclusive, fmt.Sprintf("%s: %d paths left the stated bound (unwinding)", h.Name, n))
			}
			reports = append(reports, rep)

			// candidate violations -> native replay
			for i := range st.Findings {
				f := &st.Findings[i]
				tp := tapeOf(h, f)
				tp.Prop = spec.ID
				res, out := replayOf(f, st.MaxThreads)
				lbl := findingLabel(h, f)
				if res != "reproduced" {
					msg := fmt.Sprintf("UNCONFIRMED-CEX property=%s harness=%s label=%s native=%s", spec.ID, h.Func, lbl, res)
					if strings.Contains(res, "error") {
						msg += " (" + firstLine(strings.TrimSpace(out)) + ")"
					}
					say("%s", msg)
					unconfirmed = append(unconfirmed, msg+" :: "+firstLine(lastLines(out, 3)))
					inconclusive = append(inconclusive, "unconfirmed counterexample "+lbl)
					continue
				}
				var ke *knownEntry
				for k := range known {
					if known[k].Status == "known" && known[k].Prop == spec.ID && known[k].Label == lbl {
						ke = &known[k]
					}
				}
				if ke != nil {
					if !knownSeen[lbl] {
						knownSeen[lbl] = true
						say("KNOWN-FINDING: property=%s %s (label %s)", spec.ID, ke.What, lbl)
					}
					continue
				}
				violations++
				dir := filepath.Join(outDir, "replays", spec.ID)
				os.MkdirAll(dir, 0o755)
				tp.Label, tp.Kind = f.Label, f.Kind
				b, _ := json.MarshalIndent(tp, "", " ")
				path := filepath.Join(dir, fmt.Sprintf("%s-%d.json", h.Func, i))
				os.WriteFile(path, b, 0o644)
				violationTapes = append(violationTapes, path)
				say("VIOLATION property=%s replay=%s", spec.ID, path)
				say("  harness=%s label=%s occurrences=%d %s", h.Func, lbl, st.FindingN[findingKey(f)], f.Detail)
			}
			// translation validation of passing paths
			for _, tv := range st.TVTapes {
				r := runTape(tv.Tape, 60*time.Second)
				// harnesses whose outcome depends on Go's map iteration order (not controlled by the tape) declare
				// ReplayAttempts: a passing path is validated if one of that many native runs agrees
				for a := 1; a < hh.ReplayAttempts && !(r.Outcome == "ok" && equalStrings(r.Obs, tv.Obs)); a++ {
					r = runTape(tv.Tape, 60*time.Second)
				}
				if r.Outcome == "ok" && equalStrings(r.Obs, tv.Obs) {
					tvOK++
				} else {
					tvBad++
					if tvBad <= 3 {
						say("TV-MISMATCH harness=%s native=%s\n  executor: %v\n  native:   %v", h.Func, r.Outcome, tv.Obs, r.Obs)
						if tvBad <= 3 {
							os.MkdirAll(filepath.Join(outDir, "tv-mismatch"), 0o755)
							b, _ := json.MarshalIndent(tv.Tape, "", " ")
							os.WriteFile(filepath.Join(outDir, "tv-mismatch", fmt.Sprintf("%s-%s-%d.json", spec.ID, h.Func, tvBad)), b, 0o644)
							if n := len(r.Raw); n > 400 {
								say("  %s", r.Raw[n-400:])
							} else {
								say("  %s", r.Raw)
							}
						}
					}
				}
			}
		}
	}
	xcWG.Wait()
	for _, d := range xcDisagree {
		say("SOLVER-DISAGREEMENT %s", d)
		inconclusive = append(inconclusive, "solver disagreement: "+d)
	}
	if tvBad > 0 {
		inconclusive = append(inconclusive, fmt.Sprintf("translation validation: %d passing paths behaved differently natively", tvBad))
	}
	for _, m := range inconclusive {
		say("INCONCLUSIVE property=%s %s", spec.ID, m)
	}
	wall := time.Since(t0).Seconds()

	// evidence
	fnList := make([]string, 0, len(fns))
	for k := range fns {
		if strings.Contains(k, modPath) && !strings.Contains(k, "/zzrt") && !strings.Contains(k, "/zzshim") && !strings.Contains(k, ".ZZ_") && !strings.Contains(k, ".zz") {
			fnList = append(fnList, k)
		}
	}
	sort.Strings(fnList)
	if len(samples) == 0 {
		samples = append(samples, map[string]interface{}{"note": "no path completed"})
	}
	if totalStates == 0 {
		totalStates, totalTrans = 1, 1
	}
	if totalTrans == 0 {
		totalTrans = 1
	}
	var queries int
	var solverS float64
	for _, r := range reports {
		queries += r.Queries
		solverS += r.SolverS
	}
	cov := map[string]interface{}{
		"states":                        totalStates,
		"transitions":                   totalTrans,
		"traces_validated_against_impl": tvOK,
		"samples":                       samples,
		"explanation":                   "bounded symbolic execution of the repository's SSA (regenerated from /repo on this run); states = decision-tree nodes, transitions = feasible edges; every branch feasibility and every assertion decided by z3 over bit-vector terms",
		"functions_encoded":             fnList,
		"bounds":                        spec.Bounds(tier),
		"outside_bounds":                spec.Outside,
		"harnesses":                     reports,
		"solver":                        solverBin[0] + ": " + solverVersion(),
		"solver_crosscheck": map[string]interface{}{"second_solver": strings.Join(crossCheckBin, " "), "queries_compared": xcCompared, "not_decided_by_second_solver_in_time": xcUndecided, "disagreements": len(xcDisagree), "note": xcNote,
			"how": "the first <= 150 queries of one worker per harness (definitions + push/assert/check-sat/pop text exactly as sent) are replayed on the second solver; a differing verdict makes the run inconclusive"},
		"queries_discharged":                  queries,
		"solver_s":                            solverS,
		"known_findings_seen":                 keys(knownSeen),
		"unconfirmed_counterexamples":         unconfirmed,
		"inconclusive":                        inconclusive,
		"violation_tapes":                     violationTapes,
		"repo_files_with_substituted_imports": rewritten,
		"exhaustive":                          len(inconclusive) == 0,
	}
	ev["property_id"] = spec.ID
	ev["tier"] = tier
	ev["seed"] = seed
	ev["level"] = "model_checking"
	ev["coverage"] = cov
	ev["assumptions"] = spec.Assumptions
	ev["wall_s"] = wall
	ev["violations"] = violations
	b, _ := json.MarshalIndent(ev, "", " ")
	os.MkdirAll(filepath.Join(outDir, "evidence"), 0o755)
	os.WriteFile(filepath.Join(outDir, "evidence", spec.ID+".json"), b, 0o644)
	fmt.Printf("property=%s tier=%s states=%d queries=%d violations=%d known=%d inconclusive=%d wall=%.1fs\n",
		spec.ID, tier, totalStates, queries, violations, len(knownSeen), len(inconclusive), wall)
	if violations > 0 {
		return 1
	}
	return 0
}

func keys(m map[string]bool) []string {
	out := []string{}
	for k := range m {
		out = append(out, k)
	}
	sort.Strings(out)
	return out
}

func sumMap(m map[string]int) int {
	n := 0
	for _, v := range m {
		n += v
	}
	return n
}

func firstLine(s string) string {
	if i := strings.IndexByte(s, '\n'); i >= 0 {
		return s[:i]
	}
	return s
}

func lastLines(s string, n int) string {
	ls := strings.Split(strings.TrimSpace(s), "\n")
	if len(ls) > n {
		ls = ls[len(ls)-n:]
	}
	return strings.Join(ls, " | ")
}

func equalStrings(a, b []string) bool {
	if len(a) != len(b) {
		return false
	}
	for i := range a {
		if a[i] != b[i] {
			return false
		}
	}
	return true
}

var solverVer string

func solverVersion() string {
	if solverVer == "" {
		out, err := execOutput(solverBin[0], "--version")
		if err != nil {
			solverVer = "?"
		} else {
			solverVer = strings.TrimSpace(out)
		}
	}
	return solverVer
}

func cmdSelftest(args []string) int {
	// solver smoke test: one sat and one unsat query through the pipe
	st := NewTermStore()
	sv, err := NewSolver(st, 10000)
	if err != nil {
		fmt.Println("selftest: cannot start z3:", err)
		return 1
	}
	defer sv.Close()
	x := st.Var("x", 64)
	c1 := st.App(OpULt, 0, x, st.Const(64, 5))
	c2 := st.App(OpULt, 0, st.Const(64, 7), x)
	v1, m := sv.Check([]*Term{c1}, []*Term{x})
	v2, _ := sv.Check([]*Term{c1, c2}, []*Term{x})
	if v1 != Sat || v2 != Unsat || m["x"] >= 5 {
		fmt.Println("selftest: solver smoke test failed", v1, v2, m)
		return 1
	}
	fmt.Println("selftest ok:", solverVersion())
	return 0
}

// findingLabel is the label under which a finding is reported and matched against KNOWN_FINDINGS.txt.
func findingLabel(h HarnessSpec, f *Finding) string {
	lbl := f.Label
	if f.Kind != "assert" {
		lbl = f.Kind + ":" + f.Label
		if f.Kind == "panic" {
			lbl = "panic-escaped[" + h.Func + "]"
		}
		if f.Kind == "deadlock" {
			lbl = "deadlock[" + h.Func + "]"
		}
	}
	return lbl
}
