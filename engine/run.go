package main

// Exploration driver: a shared frontier of decision prefixes, N workers each
// with its own term store and solver process, stateless re-execution.

import (
	"fmt"
	"os"
	"sort"
	"strconv"
	"strings"
	"sync"
	"time"

	"golang.org/x/tools/go/ssa"
)

type HarnessSpec struct {
	Name      string         // display name
	Pkg       string         // repo-relative package dir of the harness function
	Func      string         // exported harness function
	Params    map[string]int // bounds, readable through zzrt.Param
	Preempt   int
	MaxPaths  int
	MaxSteps  int
	Witnesses []string // Reach labels that must be hit (vacuity guard)
	Deadline  time.Duration
	MaxMs     int // solver timeout per query

	ReplayAttempts int
	TrustRace      bool
	QueryLog       string // worker 0 logs its first queries here (cross-solver check)
	// OnNewFinding is called (off the worker threads) for the first candidate violation of every kind/label;
	// returning true stops the exploration of this harness: a confirmed, not-known violation has been found.
	OnNewFinding func(f *Finding) bool
}

type PathResult struct {
	Kind      string
	Detail    string
	Findings  []Finding
	Reached   []string
	Tags      []string
	NewNodes  int
	Steps     int
	Trace     []Decision
	Inconcl   []string
	Sample    map[string]uint64
	Obs       []string
	FnSeen    map[*ssa.Function]int
	Forks     int
	Choices   []int
	Sched     []int
	NThreads  int
	NondetLen int
}

type Stats struct {
	Paths              int
	Outcomes           map[string]int
	States             int
	Transitions        int
	Steps              int64
	Queries            int
	MemoHits           int
	SolverTime         time.Duration
	Reached            map[string]int
	Findings           []Finding
	FindingN           map[string]int
	Inconcl            map[string]int
	Unsupported        map[string]int
	Unwound            map[string]int
	Internal           map[string]int
	Samples            []map[string]interface{}
	Fns                map[string]int
	Truncated          bool
	StoppedOnViolation bool
	Wall               time.Duration
	TVTapes            []tvTape
	MaxThreads         int
	SolverErrs         []string
}

type tvTape struct {
	Tape Tape
	Obs  []string
}

type Explorer struct {
	w        *World
	h        HarnessSpec
	cfg      Config
	fn       *ssa.Function
	mu       sync.Mutex
	cond     *sync.Cond
	front    [][]Decision
	act      int
	stop     bool
	st       Stats
	tvMax    int
	tvStride int
	start    time.Time
	cbWG     sync.WaitGroup
}

func findingKey(f *Finding) string {
	return f.Harness + "|" + f.Kind + "|" + f.Label + "|" + strings.Join(f.Tags, ",")
}

func (x *Explorer) push(p []Decision) {
	x.mu.Lock()
	x.front = append(x.front, p)
	x.st.Transitions++
	x.mu.Unlock()
	x.cond.Signal()
}

func (x *Explorer) pop() ([]Decision, bool) {
	x.mu.Lock()
	defer x.mu.Unlock()
	for {
		if x.stop {
			return nil, false
		}
		if n := len(x.front); n > 0 {
			p := x.front[n-1]
			x.front = x.front[:n-1]
			x.act++
			return p, true
		}
		if x.act == 0 {
			x.cond.Broadcast()
			return nil, false
		}
		x.cond.Wait()
	}
}

func (x *Explorer) done(r *PathResult) {
	x.mu.Lock()
	defer x.mu.Unlock()
	x.act--
	s := &x.st
	s.Paths++
	s.Outcomes[r.Kind]++
	s.States += r.NewNodes + 1
	s.Transitions += r.NewNodes
	s.Steps += int64(r.Steps)
	if r.NThreads > s.MaxThreads {
		s.MaxThreads = r.NThreads
	}
	for _, l := range r.Reached {
		s.Reached[l]++
	}
	for _, m := range r.Inconcl {
		s.Inconcl[m]++
	}
	switch r.Kind {
	case "unsupported":
		s.Unsupported[r.Detail]++
	case "unwound":
		s.Unwound[r.Detail]++
	case "internal":
		s.Internal[r.Detail]++
	}
	for i := range r.Findings {
		f := &r.Findings[i]
		k := findingKey(f)
		if s.FindingN[k] == 0 {
			s.Findings = append(s.Findings, *f)
			if x.h.OnNewFinding != nil {
				x.cbWG.Add(1)
				go func(f Finding) {
					defer x.cbWG.Done()
					if x.h.OnNewFinding(&f) {
						x.mu.Lock()
						if !x.stop {
							x.stop = true
							x.st.StoppedOnViolation = true
						}
						x.cond.Broadcast()
						x.mu.Unlock()
					}
				}(*f)
			}
		}
		s.FindingN[k]++
	}
	for fn, n := range r.FnSeen {
		s.Fns[fn.String()] += n
	}
	if len(s.Samples) < 6 && r.Sample != nil && (r.Kind == "done" || len(r.Findings) > 0) {
		s.Samples = append(s.Samples, map[string]interface{}{
			"outcome": r.Kind, "decisions": compactDecisions(r.Trace), "inputs": r.Sample, "steps": r.Steps, "witnesses": r.Reached,
		})
	}
	// translation-validation sample: the first few passing paths, then the passing paths met at path counts that
	// are powers of two or multiples of tvStride (spread over the whole exploration: later paths carry non-trivial
	// schedules)
	if r.Kind == "done" && len(r.Findings) == 0 && len(s.TVTapes) < x.tvMax && r.Sample != nil && r.Obs != nil &&
		(len(s.TVTapes) < 6 || s.Paths&(s.Paths-1) == 0 || (x.tvStride > 0 && s.Paths%x.tvStride == 0)) {
		s.TVTapes = append(s.TVTapes, tvTape{Tape{Harness: x.h.Func, Pkg: x.h.Pkg, Params: x.h.Params, Preempt: x.h.Preempt, Nondet: r.Sample, Choices: r.Choices, Sched: r.Sched}, r.Obs})
	}
	if x.h.MaxPaths > 0 && s.Paths >= x.h.MaxPaths && !x.stop {
		x.stop, s.Truncated = true, len(x.front) > 0 || x.act > 0
		x.cond.Broadcast()
	}
	if x.h.Deadline > 0 && time.Since(x.start) > x.h.Deadline && !x.stop {
		x.stop, s.Truncated = true, len(x.front) > 0 || x.act > 0
		x.cond.Broadcast()
	}
	if x.act == 0 && len(x.front) == 0 {
		x.cond.Broadcast()
	}
}

func compactDecisions(ds []Decision) string {
	var sb strings.Builder
	for _, d := range ds {
		if d.Forced {
			continue
		}
		fmt.Fprintf(&sb, "%c%d ", d.Kind, d.Val)
	}
	return strings.TrimSpace(sb.String())
}

func explore(w *World, h HarnessSpec, workers int) (*Stats, error) {
	pkg := w.pkgs[modPath+"/"+h.Pkg]
	if pkg == nil {
		return nil, fmt.Errorf("package %s not loaded", h.Pkg)
	}
	fn := pkg.Func(h.Func)
	if fn == nil {
		return nil, &buildError{fmt.Sprintf("harness function %s.%s not found", h.Pkg, h.Func)}
	}
	cfg := defaultConfig()
	cfg.Preempt = h.Preempt
	cfg.Trace = traceAll
	if h.Params["ZZMARKONLY"] == 1 {
		cfg.MarkOnly = true
	}
	if h.Params["ZZDETSCHED"] == 1 {
		cfg.DetSched = true
	}
	if n := h.Params["ZZMAXALLOC"]; n > 0 {
		cfg.MaxAlloc = n
	}
	if h.MaxSteps > 0 {
		cfg.MaxSteps = h.MaxSteps
	}
	if h.MaxMs > 0 {
		cfg.TimeoutMs = h.MaxMs
	}
	x := &Explorer{w: w, h: h, cfg: cfg, fn: fn, tvMax: 20, start: time.Now()}
	if v, err := strconv.Atoi(os.Getenv("GOSYM_TVMAX")); err == nil && v > 0 {
		x.tvMax = v // stress runs of the translation validation (with GOSYM_TVSTRIDE: every n-th passing path)
	}
	if v, err := strconv.Atoi(os.Getenv("GOSYM_TVSTRIDE")); err == nil && v > 0 {
		x.tvStride = v
	}
	x.cond = sync.NewCond(&x.mu)
	x.st = Stats{Outcomes: map[string]int{}, Reached: map[string]int{}, FindingN: map[string]int{}, Inconcl: map[string]int{},
		Unsupported: map[string]int{}, Unwound: map[string]int{}, Internal: map[string]int{}, Fns: map[string]int{}}
	x.front = [][]Decision{nil}
	var wg sync.WaitGroup
	var errMu sync.Mutex
	var firstErr error
	for i := 0; i < workers; i++ {
		wg.Add(1)
		go func(id int) {
			defer wg.Done()
			wk, err := newWorker(x, id)
			if err != nil {
				errMu.Lock()
				firstErr = err
				errMu.Unlock()
				return
			}
			defer wk.close()
			for {
				p, ok := x.pop()
				if !ok {
					return
				}
				r := wk.runPath(p)
				x.done(r)
			}
		}(i)
	}
	wg.Wait()
	x.cbWG.Wait()
	x.st.Wall = time.Since(x.start)
	if len(x.front) > 0 && !x.st.StoppedOnViolation {
		x.st.Truncated = true
	}
	sort.Slice(x.st.Findings, func(i, j int) bool { return findingKey(&x.st.Findings[i]) < findingKey(&x.st.Findings[j]) })
	return &x.st, firstErr
}

type worker struct {
	x     *Explorer
	id    int
	st    *TermStore
	sv    *Solver
	paths int
}

func newWorker(x *Explorer, id int) (*worker, error) {
	st := NewTermStore()
	logPath := ""
	if id == 0 && x.h.QueryLog != "" {
		logPath = x.h.QueryLog
	}
	sv, err := NewSolverLog(st, x.cfg.TimeoutMs, logPath, 150)
	if err != nil {
		return nil, err
	}
	return &worker{x: x, id: id, st: st, sv: sv}, nil
}

func (wk *worker) close() {
	wk.flushStats()
	wk.sv.Close()
}

func (wk *worker) flushStats() {
	x := wk.x
	x.mu.Lock()
	x.st.Queries += wk.sv.Queries
	x.st.MemoHits += wk.sv.MemoHits
	x.st.SolverTime += wk.sv.SolverTime
	for _, e := range wk.sv.Errors {
		if len(x.st.SolverErrs) < 10 {
			x.st.SolverErrs = append(x.st.SolverErrs, e)
		}
	}
	x.mu.Unlock()
	wk.sv.Queries, wk.sv.MemoHits, wk.sv.SolverTime, wk.sv.Errors = 0, 0, 0, nil
}

func (wk *worker) runPath(prefix []Decision) (res *PathResult) {
	wk.paths++
	if wk.st.nextID > 400000 {
		wk.flushStats()
		wk.st = NewTermStore()
		wk.sv.Reset(wk.st)
	}
	x := wk.x
	e := &Exec{
		w: x.w, st: wk.st, sv: wk.sv, cfg: x.cfg, harness: x.h.Func,
		globals: map[*ssa.Global]*Value{}, inited: map[*ssa.Package]bool{},
		prefix: prefix, nondetOcc: map[string]int{}, fnSeen: map[*ssa.Function]int{},
		evalMemo: map[int]uint64{}, params: x.h.Params,
	}
	if x.cfg.Trace {
		e.traceW = os.Stderr
	}
	forks := 0
	e.fork = func(p []Decision) { forks++; x.push(p) }
	res = &PathResult{}
	t0 := e.newThread()
	t0.started = true
	e.cur = t0
	func() {
		defer func() {
			r := recover()
			switch r := r.(type) {
			case nil:
				res.Kind = "done"
			case pathEnd:
				res.Kind, res.Detail = r.kind, r.detail
			case pathAbort:
				if e.endState != nil {
					res.Kind, res.Detail = e.endState.kind, e.endState.detail
				} else {
					res.Kind = "abort"
				}
			case targetPanic:
				e.ensureModelQuiet()
				e.addFinding("panic", "panic-escaped", valString(r.v), e.model, r.stack)
				res.Kind, res.Detail = "crash", valString(r.v)
			default:
				res.Kind, res.Detail = "internal", fmt.Sprintf("host panic: %v", r)
			}
		}()
		e.initAll(x.fn.Pkg)
		e.callTop(t0, x.fn, nil)
	}()
	// stop every other thread and wait for the host goroutines
	e.abortMu.Lock()
	e.aborted = true
	e.abortMu.Unlock()
	for _, t := range e.threads[1:] {
		select {
		case t.resume <- struct{}{}:
		default:
		}
	}
	e.wg.Wait()
	if res.Kind == "violation-stop" {
		res.Kind = "violation"
	}
	res.Findings = e.findings
	res.Reached = e.reached
	res.Tags = e.tags
	res.NewNodes = len(e.trace) - len(prefix)
	if res.NewNodes < 0 {
		res.NewNodes = 0
	}
	res.Steps = e.steps
	res.Trace = e.trace
	res.Inconcl = e.inconcl
	res.FnSeen = e.fnSeen
	res.Forks = forks
	res.NThreads = len(e.threads)
	if res.Kind == "done" && (wk.paths <= 3 || len(e.obs) > 0) {
		func() {
			defer func() { recover() }()
			e.aborted = false
			e.ensureModel()
			if e.modelValid || len(e.nondets) == 0 {
				nd, ch, sc := e.tape(e.model)
				res.Sample, res.Choices, res.Sched = nd, ch, sc
				res.Obs = e.renderObs(e.model)
			}
		}()
	}
	if len(e.findings) > 0 && res.Sample == nil {
		res.Sample = e.findings[0].Nondet
	}
	return res
}

func (e *Exec) renderObs(m Model) []string {
	out := []string{}
	memo := map[int]uint64{}
	for _, o := range e.obs {
		var sb strings.Builder
		sb.WriteString(o.Label)
		for _, v := range o.Vals {
			sb.WriteByte(' ')
			sb.WriteString(e.renderVal(v, m, memo))
		}
		out = append(out, sb.String())
	}
	return out
}

func (e *Exec) renderVal(v Value, m Model, memo map[int]uint64) string {
	if i, ok := v.(iface); ok {
		switch x := i.v.(type) {
		case *Term:
			u := e.st.Eval(x, m, memo)
			if x.w == 0 {
				if u != 0 {
					return "true"
				}
				return "false"
			}
			if _, signed, isInt := intInfo(i.t); isInt && signed {
				return fmt.Sprint(int64(signExt(u, x.w)))
			}
			return fmt.Sprint(u)
		case string:
			return fmt.Sprintf("%q", x)
		case *SymStr:
			b := make([]byte, len(x.b))
			for k, t := range x.b {
				b[k] = byte(e.st.Eval(t, m, memo))
			}
			return fmt.Sprintf("%q", string(b))
		case nil:
			return "<nil>"
		}
		return "?"
	}
	return "?"
}
