package main

// Native replay: the same harness, compiled by the Go toolchain against the
// same source view (plus the cooperative-scheduling rewrites), driven by a
// tape of the solver's values and the executor's decisions.

import (
	"bytes"
	"context"
	"encoding/json"
	"fmt"
	"os"
	"os/exec"
	"path/filepath"
	"regexp"
	"sort"
	"strings"
	"sync"
	"time"
)

type Tape struct {
	Harness string            `json:"harness"`
	Pkg     string            `json:"pkg"`
	Params  map[string]int    `json:"params,omitempty"`
	Preempt int               `json:"preempt"`
	Nondet  map[string]uint64 `json:"nondet"`
	Choices []int             `json:"choices"`
	Sched   []int             `json:"sched"`
	Kind    string            `json:"expect_kind,omitempty"`
	Label   string            `json:"expect_label,omitempty"`
	Tags    []string          `json:"tags,omitempty"`
	Detail  string            `json:"detail,omitempty"`
	Prop    string            `json:"property,omitempty"`
}

func tapeOf(h HarnessSpec, f *Finding) Tape {
	return Tape{Harness: h.Func, Pkg: h.Pkg, Params: h.Params, Preempt: h.Preempt, Nondet: f.Nondet,
		Choices: f.Choices, Sched: f.Sched, Kind: f.Kind, Label: f.Label, Tags: f.Tags, Detail: f.Detail}
}

var harnessFuncRe = regexp.MustCompile(`(?m)^func (ZZ_\w+)\(\)`)

func harnessFuncs(pkg string) []string {
	dir := filepath.Join(verifDir, "harness", pkg)
	ents, _ := os.ReadDir(dir)
	var out []string
	for _, en := range ents {
		if !strings.HasSuffix(en.Name(), ".go") || excludeFiles[filepath.Join(repoDir, pkg, en.Name())] {
			continue
		}
		b, _ := os.ReadFile(filepath.Join(dir, en.Name()))
		for _, m := range harnessFuncRe.FindAllSubmatch(b, -1) {
			out = append(out, string(m[1]))
		}
	}
	sort.Strings(out)
	return out
}

type nativeBin struct {
	path  string
	err   error
	log   string
	tries int
}

var (
	nativeMu   sync.Mutex
	nativeBins = map[string]*nativeBin{}
	scratchDir string
)

func scratch() string {
	if scratchDir == "" {
		d, err := os.MkdirTemp("", "gosym-")
		if err != nil {
			panic(err)
		}
		scratchDir = d
	}
	return scratchDir
}

func cleanupScratch() {
	if scratchDir != "" {
		os.RemoveAll(scratchDir)
	}
}

// nativeBinary builds (once per process) the replay binary for pkg.
func nativeBinary(pkg string) (string, error) {
	nativeMu.Lock()
	defer nativeMu.Unlock()
	if nb, ok := nativeBins[pkg]; ok && (nb.err == nil || nb.tries >= 3) {
		return nb.path, nb.err
	}
	// a failed build is retried (up to 3 times): the machine may be overloaded, or - while developing - a harness
	// file may have been caught half-edited
	nb := nativeBins[pkg]
	if nb == nil {
		nb = &nativeBin{}
		nativeBins[pkg] = nb
	}
	nb.tries++
	nb.err = nil
	v, err := buildView(true, []string{pkg})
	if err != nil {
		nb.err = err
		return "", err
	}
	var mb strings.Builder
	fmt.Fprintf(&mb, "package main\n\nimport (\n\tpkg %q\n\t%q\n)\n\nfunc main() {\n\tzzrt.Main(map[string]func(){\n", modPath+"/"+pkg, modPath+"/zzrt")
	for _, f := range harnessFuncs(pkg) {
		fmt.Fprintf(&mb, "\t\t%q: pkg.%s,\n", f, f)
	}
	mb.WriteString("\t})\n}\n")
	mainDir := "zzmain_" + pkg
	v.Files[filepath.Join(repoDir, mainDir, "main.go")] = []byte(mb.String())
	dir := filepath.Join(scratch(), "native_"+pkg)
	os.MkdirAll(dir, 0o755)
	ov, err := v.WriteOverlay(dir)
	if err != nil {
		nb.err = err
		return "", err
	}
	bin := filepath.Join(dir, "zzbin")
	cmd := exec.Command("go", "build", "-overlay", ov, "-o", bin, "./"+mainDir)
	cmd.Dir = repoDir
	cmd.Env = goEnv()
	out, err := cmd.CombinedOutput()
	if err != nil {
		nb.err = &buildError{fmt.Sprintf("native build failed: %v\n%s", err, out)}
		return "", nb.err
	}
	nb.path = bin
	return bin, nil
}

type replayResult struct {
	Outcome string // "assert:<label>", "panic", "deadlock", "ok", "diverged", "timeout", "error"
	Labels  []string
	Obs     []string
	Raw     string
}

func runTape(t Tape, timeout time.Duration) replayResult {
	bin, err := nativeBinary(t.Pkg)
	if err != nil {
		return replayResult{Outcome: "error", Raw: err.Error()}
	}
	b, _ := json.Marshal(t)
	f, err := os.CreateTemp(scratch(), "tape-*.json")
	if err != nil {
		return replayResult{Outcome: "error", Raw: err.Error()}
	}
	f.Write(b)
	f.Close()
	defer os.Remove(f.Name())
	ctx, cancel := context.WithTimeout(context.Background(), timeout)
	defer cancel()
	cmd := exec.CommandContext(ctx, bin, f.Name())
	var out bytes.Buffer
	cmd.Stdout, cmd.Stderr = &out, &out
	err = cmd.Run()
	res := replayResult{Raw: out.String()}
	if ctx.Err() != nil {
		res.Outcome = "timeout"
		return res
	}
	for _, l := range strings.Split(res.Raw, "\n") {
		switch {
		case strings.HasPrefix(l, "ZZ-ASSERT-FAIL "):
			res.Labels = append(res.Labels, strings.TrimPrefix(l, "ZZ-ASSERT-FAIL "))
		case strings.HasPrefix(l, "ZZ-OBS "):
			res.Obs = append(res.Obs, strings.TrimPrefix(l, "ZZ-OBS "))
		case strings.HasPrefix(l, "ZZ-DIVERGED"):
			res.Outcome = "diverged"
		case strings.HasPrefix(l, "ZZ-DEADLOCK"):
			res.Outcome = "deadlock"
		case strings.HasPrefix(l, "ZZ-OK"):
			if res.Outcome == "" {
				res.Outcome = "ok"
			}
		}
	}
	if len(res.Labels) > 0 && res.Outcome != "diverged" {
		res.Outcome = "assert:" + res.Labels[0]
	}
	if res.Outcome == "" {
		if err != nil && (strings.Contains(res.Raw, "panic:") || strings.Contains(res.Raw, "fatal error:") || strings.Contains(res.Raw, "ZZ-PANIC")) {
			res.Outcome = "panic"
		} else if err != nil {
			res.Outcome = "error"
		} else {
			res.Outcome = "ok"
		}
	}
	return res
}

// replayTape runs the tape up to `attempts` times (map iteration order and,
// for stress replays, timing are not controlled by the tape) and says whether
// the expected violation reproduced.
func replayTape(t Tape, attempts int) (string, string) {
	var last replayResult
	infra := 0
	for i := 0; i < attempts; i++ {
		last = runTape(t, 120*time.Second)
		if matches(t, last) {
			return "reproduced", last.Raw
		}
		if last.Outcome == "error" || last.Outcome == "timeout" {
			// the replay itself did not run to a verdict (a heavily loaded machine, a killed process): that says
			// nothing about the counterexample - try again a few times, not counted against the attempts
			infra++
			if infra > 3 {
				break
			}
			i--
		}
	}
	return "not-reproduced(" + last.Outcome + ")", last.Raw
}

func matches(t Tape, r replayResult) bool {
	switch t.Kind {
	case "assert":
		for _, l := range r.Labels {
			if l == t.Label {
				return true
			}
		}
		return false
	case "panic":
		return r.Outcome == "panic"
	case "deadlock":
		return r.Outcome == "deadlock"
	}
	return false
}

func cmdReplay(args []string) int {
	if len(args) < 1 {
		usage()
	}
	defer cleanupScratch()
	b, err := os.ReadFile(args[0])
	if err != nil {
		fmt.Fprintln(os.Stderr, err)
		return 2
	}
	var t Tape
	if err := json.Unmarshal(b, &t); err != nil {
		fmt.Fprintln(os.Stderr, err)
		return 2
	}
	res, out := replayTape(t, 10)
	fmt.Print(out)
	fmt.Printf("replay: %s (expected %s %s)\n", res, t.Kind, t.Label)
	if res == "reproduced" {
		return 1
	}
	return 0
}
