package main

// Values of the executor: "concrete shape, symbolic scalars".
//
//   *Term                 integers (BV of the real width) and booleans
//   string / *SymStr      strings (concrete / concrete length, symbolic bytes)
//   float64               concrete floating point (rare)
//   structV, arrayV       aggregates (copied on load/store)
//   *Value                pointers (cell identity is Go pointer identity)
//   []Value               slices (Go slicing gives aliasing and cap semantics)
//   *mapV, *chanV         reference types (nil pointer = nil map/chan)
//   iface                 interface values
//   *ssa.Function, *closure, *ssa.Builtin   functions
//   tuple                 multi-value results

import (
	"fmt"
	"go/types"
	"strings"

	"golang.org/x/tools/go/ssa"
)

type Value = interface{}

type structV []Value
type arrayV []Value
type tuple []Value

type iface struct {
	t types.Type
	v Value
}

type closure struct {
	Fn  *ssa.Function
	Env []Value
}

// SymStr is a string of concrete length whose bytes may be symbolic.
type SymStr struct {
	b []*Term // each BV8
}

type mapEntry struct {
	k, v Value
}

type mapV struct {
	keyT    types.Type
	entries []mapEntry // insertion order; deleted entries are removed
}

type chanV struct {
	buf    []Value
	cap    int
	closed bool
	// rendezvous support for unbuffered channels
	recvWaiting int
	id          int
}

// iterators
type mapIter struct {
	m     *mapV
	snap  []mapEntry
	i     int
	order []int // chosen permutation when all-orders mode is on
}

type strIter struct {
	s string
	i int
}

// rtErr is the dynamic value of a Go runtime error raised by the executor.
type rtErr struct{ msg string }

// opaque is an uninterpreted host-side value (errors from fmt.Errorf,
// reflect.Type values, ...). Identity is pointer identity.
type opaque struct {
	kind string
	desc string
	data interface{}
}

// targetPanic is the host panic that carries a target-program panic.
type targetPanic struct {
	v     Value
	stack []string
}

func (p targetPanic) String() string { return "panic: " + valString(p.v) }

func copyVal(v Value) Value {
	switch v := v.(type) {
	case structV:
		c := make(structV, len(v))
		for i, f := range v {
			c[i] = copyVal(f)
		}
		return c
	case arrayV:
		c := make(arrayV, len(v))
		for i, f := range v {
			c[i] = copyVal(f)
		}
		return c
	}
	return v
}

// assignInto stores v in the cell p. Struct and array values are copied field by field INTO the aggregate the
// cell already holds, so that pointers to its fields and elements taken earlier (go/ssa initialises composite
// literals in place: `t1 = &t0.f; *t0 = T{}; *t1 = x`) keep referring to the live aggregate.
func assignInto(p *Value, v Value) {
	switch src := v.(type) {
	case structV:
		if dst, ok := (*p).(structV); ok && len(dst) == len(src) {
			for i := range src {
				assignInto(&dst[i], src[i])
			}
			return
		}
	case arrayV:
		if dst, ok := (*p).(arrayV); ok && len(dst) == len(src) {
			for i := range src {
				assignInto(&dst[i], src[i])
			}
			return
		}
	}
	*p = copyVal(v)
}

func valString(v Value) string {
	return valStringD(v, 0)
}

func valStringD(v Value, d int) string {
	if d > 4 {
		return "..."
	}
	switch v := v.(type) {
	case nil:
		return "<nil>"
	case *Term:
		return v.String()
	case string:
		return fmt.Sprintf("%q", v)
	case *SymStr:
		s := make([]string, len(v.b))
		for i, b := range v.b {
			s[i] = b.String()
		}
		return "symstr[" + strings.Join(s, " ") + "]"
	case structV:
		s := make([]string, len(v))
		for i, f := range v {
			s[i] = valStringD(f, d+1)
		}
		return "{" + strings.Join(s, ", ") + "}"
	case arrayV:
		if len(v) > 8 {
			return fmt.Sprintf("[%d]array", len(v))
		}
		s := make([]string, len(v))
		for i, f := range v {
			s[i] = valStringD(f, d+1)
		}
		return "[" + strings.Join(s, ", ") + "]"
	case []Value:
		if v == nil {
			return "nil-slice"
		}
		if len(v) > 8 {
			return fmt.Sprintf("slice(len=%d)", len(v))
		}
		s := make([]string, len(v))
		for i, f := range v {
			s[i] = valStringD(f, d+1)
		}
		return "[]{" + strings.Join(s, ", ") + "}"
	case *Value:
		if v == nil {
			return "nil-ptr"
		}
		return "&" + valStringD(*v, d+1)
	case iface:
		if v.t == nil {
			return "nil-iface"
		}
		return fmt.Sprintf("iface(%s: %s)", v.t, valStringD(v.v, d+1))
	case *mapV:
		if v == nil {
			return "nil-map"
		}
		return fmt.Sprintf("map(len=%d)", len(v.entries))
	case *chanV:
		return "chan"
	case *ssa.Function:
		if v == nil {
			return "nil-func"
		}
		return "func " + v.String()
	case *closure:
		return "closure " + v.Fn.String()
	case tuple:
		s := make([]string, len(v))
		for i, f := range v {
			s[i] = valStringD(f, d+1)
		}
		return "(" + strings.Join(s, ", ") + ")"
	case *opaque:
		return "opaque(" + v.kind + ":" + v.desc + ")"
	case rtErr:
		return "runtime error: " + v.msg
	case float64:
		return fmt.Sprint(v)
	}
	return fmt.Sprintf("%T", v)
}

// ---- type helpers ----

func basicOf(t types.Type) *types.Basic {
	b, _ := t.Underlying().(*types.Basic)
	return b
}

// intInfo returns (width, signed, ok) for integer types.
func intInfo(t types.Type) (int, bool, bool) {
	b := basicOf(t)
	if b == nil {
		return 0, false, false
	}
	switch b.Kind() {
	case types.Int, types.Int64, types.UntypedInt:
		return 64, true, true
	case types.Int8:
		return 8, true, true
	case types.Int16:
		return 16, true, true
	case types.Int32, types.UntypedRune:
		return 32, true, true
	case types.Uint, types.Uint64, types.Uintptr:
		return 64, false, true
	case types.Uint8:
		return 8, false, true
	case types.Uint16:
		return 16, false, true
	case types.Uint32:
		return 32, false, true
	}
	return 0, false, false
}

func isString(t types.Type) bool {
	b := basicOf(t)
	return b != nil && b.Info()&types.IsString != 0
}
func isFloat(t types.Type) bool {
	b := basicOf(t)
	return b != nil && b.Info()&types.IsFloat != 0
}
func isBool(t types.Type) bool {
	b := basicOf(t)
	return b != nil && b.Info()&types.IsBoolean != 0
}

func deref(t types.Type) types.Type {
	if p, ok := t.Underlying().(*types.Pointer); ok {
		return p.Elem()
	}
	panic(fmt.Sprintf("deref: not a pointer: %s", t))
}
