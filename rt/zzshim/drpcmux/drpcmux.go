// Package drpcmux: the mux only remembers the registered service implementation.
package drpcmux

import (
	"errors"

	"storj.io/drpc"
)

type Mux struct {
	Impl interface{}
}

func New() *Mux { return &Mux{} }

func (m *Mux) Register(srv interface{}, desc drpc.Description) error {
	m.Impl = srv
	return nil
}

func (m *Mux) HandleRPC(stream drpc.Stream, rpc string) error {
	return errors.New("zz: dispatch is done by the harness")
}
