// Package drpcserver: Serve marks the listener as serving the mux's
// implementation until the context is cancelled, then closes the listener.
package drpcserver

import (
	stdcontext "context"
	"errors"

	"github.com/anthdm/hollywood/zzrt"
	"github.com/anthdm/hollywood/zzshim/context"
	"github.com/anthdm/hollywood/zzshim/drpcmux"
	"github.com/anthdm/hollywood/zzshim/net"
	"storj.io/drpc/drpcmanager"
)

type Options struct {
	Manager drpcmanager.Options
}

type Server struct {
	mux *drpcmux.Mux
}

func New(handler interface{}) *Server { return NewWithOptions(handler, Options{}) }

func NewWithOptions(handler interface{}, opts Options) *Server {
	m, _ := handler.(*drpcmux.Mux)
	return &Server{mux: m}
}

func (s *Server) Serve(ctx stdcontext.Context, lis net.Listener) error {
	l, ok := lis.(*net.FakeListener)
	if !ok || s.mux == nil {
		return errors.New("zz: Serve needs the contract transport")
	}
	zzrt.Point()
	l.Impl = s.mux.Impl
	l.Serving = true
	cc, isCancel := ctx.(*context.CancelCtx)
	if !isCancel {
		return errors.New("zz: Serve needs a cancellable context of the context model")
	}
	zzrt.Await(func() bool { return cc.IsDone() })
	l.Serving = false
	l.Close()
	return nil
}
