// Package tls: TLS is outside the claim; Dial and Listen are the plain contract transport.
package tls

import (
	stdtls "crypto/tls"

	"github.com/anthdm/hollywood/zzshim/net"
)

type Config = stdtls.Config
type Certificate = stdtls.Certificate

func Dial(network, addr string, config *Config) (net.Conn, error) { return net.Dial(network, addr) }
func Listen(network, laddr string, config *Config) (net.Listener, error) {
	return net.Listen(network, laddr)
}
