// Package tls: TLS itself (handshake, certificates, encryption) is outside the
// claim; Dial and Listen use the plain contract transport. What is kept is the
// shape of the real API that matters to callers: Dial returns a concrete *Conn
// (nil on failure), exactly like crypto/tls, so a caller that stores the
// result in a net.Conn variable gets a non-nil interface holding a nil pointer.
package tls

import (
	stdtls "crypto/tls"
	stdtime "time"

	"github.com/anthdm/hollywood/zzshim/net"
)

type Config = stdtls.Config
type Certificate = stdtls.Certificate

// Conn wraps a connection of the contract transport. Like crypto/tls.Conn its methods dereference the receiver.
type Conn struct {
	inner *net.FakeConn
}

func (c *Conn) ZZFake() *net.FakeConn                 { return c.inner }
func (c *Conn) Read(b []byte) (int, error)            { return c.inner.Read(b) }
func (c *Conn) Write(b []byte) (int, error)           { return c.inner.Write(b) }
func (c *Conn) Close() error                          { return c.inner.Close() }
func (c *Conn) LocalAddr() net.Addr                   { return c.inner.LocalAddr() }
func (c *Conn) RemoteAddr() net.Addr                  { return c.inner.RemoteAddr() }
func (c *Conn) SetDeadline(t stdtime.Time) error      { return c.inner.SetDeadline(t) }
func (c *Conn) SetReadDeadline(t stdtime.Time) error  { return c.inner.SetReadDeadline(t) }
func (c *Conn) SetWriteDeadline(t stdtime.Time) error { return c.inner.SetWriteDeadline(t) }

func Dial(network, addr string, config *Config) (*Conn, error) {
	c, err := net.Dial(network, addr)
	if err != nil {
		return nil, err
	}
	return &Conn{inner: c.(*net.FakeConn)}, nil
}

func Listen(network, laddr string, config *Config) (net.Listener, error) {
	return net.Listen(network, laddr)
}
