// Package rand models math/rand by its contract: Intn(n) is any value in [0,n).
package rand

import "github.com/anthdm/hollywood/zzrt"

var fixed = -1

// ZZFix makes Intn return min(v, n-1) until ZZFix(-1): harness set-up code uses it where the drawn value is
// irrelevant to the property (e.g. the id of the engine's own event stream actor).
func ZZFix(v int) { fixed = v }

func Intn(n int) int {
	if n <= 0 {
		panic("invalid argument to Intn")
	}
	if fixed >= 0 {
		if fixed < n {
			return fixed
		}
		return n - 1
	}
	return zzrt.NondetIntn("rand.Intn", n)
}
