// Package rand models math/rand by its contract: Intn(n) is any value in [0,n).
package rand

import "github.com/anthdm/hollywood/zzrt"

func Intn(n int) int {
	if n <= 0 {
		panic("invalid argument to Intn")
	}
	return zzrt.NondetIntn("rand.Intn", n)
}
