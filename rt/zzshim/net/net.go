// Package net is the contract transport used instead of TCP: Listen registers
// an address on an in-memory network, Dial succeeds exactly when the address
// is listening and the harness has not taken the peer down. Conn and Listener
// are the real interface types. No bytes flow through Conn.Read/Write: the
// drpcconn model carries whole frames (the bytes of the real codec) instead.
package net

import (
	"errors"
	stdnet "net"
	stdtime "time"

	"github.com/anthdm/hollywood/zzrt"
)

type Conn = stdnet.Conn
type Listener = stdnet.Listener
type Addr = stdnet.Addr

type fakeAddr string

func (a fakeAddr) Network() string { return "tcp" }
func (a fakeAddr) String() string  { return string(a) }

// FakeListener is what Listen returns.
type FakeListener struct {
	Address string
	Closed  bool
	Serving bool        // a drpc server is serving on it
	Impl    interface{} // the service implementation registered with the server's mux
	Conns   []*FakeConn // accepted connections, in dial order
}

func (l *FakeListener) Accept() (Conn, error) { return nil, errors.New("zz: Accept is not modelled") }
func (l *FakeListener) Close() error {
	l.Closed = true
	l.Serving = false
	if Listeners[l.Address] == l {
		delete(Listeners, l.Address)
	}
	return nil
}
func (l *FakeListener) Addr() Addr { return fakeAddr(l.Address) }

// FakeConn is one dialled connection.
type FakeConn struct {
	Address  string
	Peer     *FakeListener
	IsClosed bool
	Frames   [][]byte // frames sent by the dialling side and not yet handed to the serving side
	NSent    int
	ClosedCh chan struct{}
}

func (c *FakeConn) Read(b []byte) (int, error) {
	return 0, errors.New("zz: byte transport not modelled")
}
func (c *FakeConn) Write(b []byte) (int, error) { return len(b), nil }
func (c *FakeConn) Close() error {
	zzrt.Point()
	if !c.IsClosed {
		c.IsClosed = true
		zzrt.ClosePoint()
		zzrt.MarkClosed(c.ClosedCh)
		close(c.ClosedCh)
	}
	return nil
}
func (c *FakeConn) LocalAddr() Addr                     { return fakeAddr("local") }
func (c *FakeConn) RemoteAddr() Addr                    { return fakeAddr(c.Address) }
func (c *FakeConn) SetDeadline(stdtime.Time) error      { return nil }
func (c *FakeConn) SetReadDeadline(stdtime.Time) error  { return nil }
func (c *FakeConn) SetWriteDeadline(stdtime.Time) error { return nil }

// The in-memory network (per execution path: package state is re-initialised for every path).
var (
	Listeners = map[string]*FakeListener{}
	Down      = map[string]bool{} // addresses the harness has made unreachable
	Dials     = map[string]int{}  // dial attempts per address
)

var ErrRefused = errors.New("zz: connection refused")

func Listen(network, address string) (Listener, error) {
	zzrt.Point()
	if l := Listeners[address]; l != nil && !l.Closed {
		return nil, errors.New("zz: address already in use")
	}
	l := &FakeListener{Address: address}
	Listeners[address] = l
	return l, nil
}

func Dial(network, address string) (Conn, error) {
	zzrt.Point()
	Dials[address]++
	l := Listeners[address]
	if l == nil || l.Closed || !l.Serving || Down[address] {
		return nil, ErrRefused
	}
	c := &FakeConn{Address: address, Peer: l, ClosedCh: make(chan struct{})}
	l.Conns = append(l.Conns, c)
	return c, nil
}

// Accepting reports whether a dial to address would currently be accepted.
func Accepting(address string) bool {
	l := Listeners[address]
	return l != nil && !l.Closed && l.Serving && !Down[address]
}
