// Package time models the parts of package time the repository uses, on the
// harness clock (zzrt.ClockNow / ClockAdvance). Sleep advances the clock and
// yields; tickers never fire on their own.
package time

import (
	stdtime "time"

	"github.com/anthdm/hollywood/zzrt"
)

type Duration = stdtime.Duration
type Time = stdtime.Time

const (
	Nanosecond  = stdtime.Nanosecond
	Microsecond = stdtime.Microsecond
	Millisecond = stdtime.Millisecond
	Second      = stdtime.Second
	Minute      = stdtime.Minute
	Hour        = stdtime.Hour
)

// Now is the harness clock as an offset from the zero Time.
func Now() Time { return Time{}.Add(Duration(zzrt.ClockNow())) }

func Sleep(d Duration) {
	if d > 0 {
		zzrt.ClockAdvance(int64(d))
	}
	zzrt.Yield()
}

func Since(t Time) Duration { return Now().Sub(t) }

type Ticker struct {
	C <-chan Time
}

func NewTicker(d Duration) *Ticker {
	return &Ticker{C: make(chan Time, 1)}
}

func (t *Ticker) Stop() {}
