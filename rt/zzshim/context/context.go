// Package context models the standard context package: Background,
// WithCancel, WithTimeout with parent-to-child propagation. Context is the
// real interface type, so values flow into unshimmed dependencies unchanged.
// A WithTimeout/WithDeadline deadline is fired by a timer goroutine that is
// runnable only once the harness clock has reached the deadline; the clock
// moves through time.Sleep, or to the earliest pending deadline when every
// goroutine is blocked.
package context

import (
	stdcontext "context"
	stdtime "time"

	"github.com/anthdm/hollywood/zzrt"
)

type Context = stdcontext.Context
type CancelFunc = stdcontext.CancelFunc

type ctxErr struct{ s string }

func (e *ctxErr) Error() string   { return e.s }
func (e *ctxErr) Timeout() bool   { return e == DeadlineExceeded }
func (e *ctxErr) Temporary() bool { return e == DeadlineExceeded }

var (
	canceledErr = &ctxErr{"context canceled"}
	deadlineErr = &ctxErr{"context deadline exceeded"}
)

var Canceled error = canceledErr
var DeadlineExceeded error = deadlineErr

// OnCancel, when set by a harness, observes every cancellation at the instant
// it happens (before Done is closed).
var OnCancel func(ctx Context)

type backgroundCtx struct{}

func (backgroundCtx) Deadline() (stdtime.Time, bool) { return stdtime.Time{}, false }
func (backgroundCtx) Done() <-chan struct{}         { return nil }
func (backgroundCtx) Err() error                     { return nil }
func (backgroundCtx) Value(key any) any              { return nil }

var background = backgroundCtx{}

func Background() Context { return background }
func TODO() Context       { return background }

type CancelCtx struct {
	parent   Context
	done     chan struct{}
	err      error
	children []*CancelCtx
	deadline int64
	timed    bool
}

func (c *CancelCtx) Deadline() (stdtime.Time, bool) { return stdtime.Time{}, false }

func (c *CancelCtx) Done() <-chan struct{} { return c.done }

func (c *CancelCtx) Err() error {
	zzrt.Point()
	zzrt.HBAcquire(c)
	return c.err
}

// IsDone reports cancellation without being a scheduling point (harness use).
func (c *CancelCtx) IsDone() bool { return c.err != nil }

func (c *CancelCtx) Value(key any) any { return c.parent.Value(key) }

func (c *CancelCtx) cancel(err error) {
	zzrt.Point()
	if c.err != nil {
		return
	}
	if OnCancel != nil {
		OnCancel(c)
	}
	c.err = err
	zzrt.HBRelease(c)
	zzrt.ClosePoint()
	zzrt.MarkClosed(c.done)
	close(c.done)
	for _, ch := range c.children {
		ch.cancel(err)
	}
}

func newCancelCtx(parent Context) *CancelCtx {
	c := &CancelCtx{parent: parent, done: make(chan struct{})}
	if p, ok := parent.(*CancelCtx); ok {
		if p.err != nil {
			c.cancel(p.err)
		} else {
			p.children = append(p.children, c)
		}
	}
	return c
}

func WithCancel(parent Context) (Context, CancelFunc) {
	c := newCancelCtx(parent)
	return c, func() { c.cancel(Canceled) }
}

func WithTimeout(parent Context, d stdtime.Duration) (Context, CancelFunc) {
	return withDeadline(parent, zzrt.ClockNow()+int64(d))
}

// WithDeadline: t is a time of the time model (an offset of the harness clock from the zero Time).
func WithDeadline(parent Context, t stdtime.Time) (Context, CancelFunc) {
	return withDeadline(parent, int64(t.Sub(stdtime.Time{})))
}

// The timer goroutine becomes runnable once the harness clock has reached the deadline; the clock moves through
// time.Sleep / ClockAdvance, or to the earliest pending deadline when every goroutine is blocked.
func withDeadline(parent Context, deadline int64) (Context, CancelFunc) {
	c := newCancelCtx(parent)
	c.timed = true
	c.deadline = deadline
	zzrt.Go(func() {
		zzrt.AwaitTimer(c.deadline, func() bool { return c.err != nil })
		if c.err == nil {
			c.cancel(DeadlineExceeded)
		}
	})
	return c, func() { c.cancel(Canceled) }
}
