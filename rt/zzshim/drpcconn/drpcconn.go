// Package drpcconn models a DRPC client connection over the contract transport:
// one stream per connection; MsgSend marshals the message with the encoding the
// caller passes (the repository's generated codec) and queues the frame on the
// connection, to be handed to the serving side by the harness. Frames arrive
// exactly once and in order while the connection is up (that is the contract
// assumed of TCP+DRPC; it is not checked here).
package drpcconn

import (
	stdcontext "context"
	"errors"
	"io"

	"github.com/anthdm/hollywood/zzrt"
	"github.com/anthdm/hollywood/zzshim/context"
	"github.com/anthdm/hollywood/zzshim/net"
	"storj.io/drpc"
	"storj.io/drpc/drpcmanager"
)

type Options struct {
	Manager drpcmanager.Options
}

type Conn struct {
	tr  drpc.Transport
	raw *net.FakeConn
}

func New(tr drpc.Transport) *Conn { return NewWithOptions(tr, Options{}) }

func NewWithOptions(tr drpc.Transport, opts Options) *Conn {
	c := &Conn{tr: tr}
	c.raw, _ = tr.(*net.FakeConn)
	if u, ok := tr.(interface{ ZZFake() *net.FakeConn }); ok {
		c.raw = u.ZZFake() // the TLS model wraps the contract connection
	}
	return c
}

func (c *Conn) Transport() drpc.Transport { return c.tr }

func (c *Conn) Close() error { return c.tr.Close() }

func (c *Conn) Closed() <-chan struct{} {
	if c.raw == nil {
		return nil
	}
	return c.raw.ClosedCh
}

func (c *Conn) Invoke(ctx stdcontext.Context, rpc string, enc drpc.Encoding, in, out drpc.Message) error {
	return errors.New("zz: unary RPCs are not modelled")
}

func (c *Conn) NewStream(ctx stdcontext.Context, rpc string, enc drpc.Encoding) (drpc.Stream, error) {
	zzrt.Point()
	if c.raw == nil || c.raw.IsClosed || !net.Accepting(c.raw.Address) {
		return nil, io.EOF
	}
	return &Stream{c: c, ctx: ctx}, nil
}

// Stream is the client side of the one stream of a connection.
type Stream struct {
	c      *Conn
	ctx    stdcontext.Context
	closed bool
}

func (s *Stream) Context() stdcontext.Context { return s.ctx }

func (s *Stream) MsgSend(msg drpc.Message, enc drpc.Encoding) error {
	zzrt.Point()
	if s.closed || s.c.raw.IsClosed {
		return io.EOF
	}
	b, err := enc.Marshal(msg)
	if err != nil {
		return err
	}
	s.c.raw.Frames = append(s.c.raw.Frames, b)
	s.c.raw.NSent++
	return nil
}

func (s *Stream) MsgRecv(msg drpc.Message, enc drpc.Encoding) error {
	return errors.New("zz: the serving side never sends on this stream")
}

func (s *Stream) CloseSend() error { s.closed = true; return nil }
func (s *Stream) Close() error     { s.closed = true; return nil }

// ServerStream is the serving side's view of a connection's stream: MsgRecv hands out the queued frames, then
// reports the end of what has arrived so far with the given error.
type ServerStream struct {
	Conn *net.FakeConn
	End  error
	ctx  stdcontext.Context
}

func NewServerStream(c *net.FakeConn, end error) *ServerStream {
	return &ServerStream{Conn: c, End: end, ctx: context.Background()}
}

func (s *ServerStream) Context() stdcontext.Context { return s.ctx }
func (s *ServerStream) MsgSend(msg drpc.Message, enc drpc.Encoding) error {
	return errors.New("zz: the serving side never sends on this stream")
}
func (s *ServerStream) MsgRecv(msg drpc.Message, enc drpc.Encoding) error {
	if len(s.Conn.Frames) == 0 {
		return s.End
	}
	b := s.Conn.Frames[0]
	s.Conn.Frames = s.Conn.Frames[1:]
	return enc.Unmarshal(b, msg)
}
func (s *ServerStream) CloseSend() error { return nil }
func (s *ServerStream) Close() error     { return nil }
