// Package atomic models sync/atomic: each operation is a scheduling point
// followed by a plain (indivisible between scheduling points) access, and a
// release/acquire edge on the address for the race detector.
package atomic

import "github.com/anthdm/hollywood/zzrt"

func AddInt64(addr *int64, delta int64) int64 {
	zzrt.Point()
	zzrt.HBAcquire(addr)
	*addr += delta
	zzrt.HBRelease(addr)
	return *addr
}

func LoadInt64(addr *int64) int64 {
	zzrt.Point()
	zzrt.HBAcquire(addr)
	return *addr
}

func StoreInt64(addr *int64, v int64) {
	zzrt.Point()
	*addr = v
	zzrt.HBRelease(addr)
}

func AddInt32(addr *int32, delta int32) int32 {
	zzrt.Point()
	zzrt.HBAcquire(addr)
	*addr += delta
	zzrt.HBRelease(addr)
	return *addr
}

func LoadInt32(addr *int32) int32 {
	zzrt.Point()
	zzrt.HBAcquire(addr)
	return *addr
}

func StoreInt32(addr *int32, v int32) {
	zzrt.Point()
	*addr = v
	zzrt.HBRelease(addr)
}

func SwapInt32(addr *int32, v int32) int32 {
	zzrt.Point()
	zzrt.HBAcquire(addr)
	old := *addr
	*addr = v
	zzrt.HBRelease(addr)
	return old
}

func CompareAndSwapInt32(addr *int32, old, new int32) bool {
	zzrt.Point()
	zzrt.HBAcquire(addr)
	if *addr == old {
		*addr = new
		zzrt.HBRelease(addr)
		return true
	}
	return false
}

func CompareAndSwapInt64(addr *int64, old, new int64) bool {
	zzrt.Point()
	zzrt.HBAcquire(addr)
	if *addr == old {
		*addr = new
		zzrt.HBRelease(addr)
		return true
	}
	return false
}

type Uint32 struct{ v uint32 }

func (x *Uint32) Load() uint32 {
	zzrt.Point()
	zzrt.HBAcquire(x)
	return x.v
}

func (x *Uint32) Store(v uint32) {
	zzrt.Point()
	x.v = v
	zzrt.HBRelease(x)
}

func (x *Uint32) CompareAndSwap(old, new uint32) bool {
	zzrt.Point()
	zzrt.HBAcquire(x)
	if x.v == old {
		x.v = new
		zzrt.HBRelease(x)
		return true
	}
	return false
}

type Int32 struct{ v int32 }

func (x *Int32) Load() int32 {
	zzrt.Point()
	zzrt.HBAcquire(x)
	return x.v
}

func (x *Int32) Store(v int32) {
	zzrt.Point()
	x.v = v
	zzrt.HBRelease(x)
}

func (x *Int32) Add(d int32) int32 {
	zzrt.Point()
	zzrt.HBAcquire(x)
	x.v += d
	zzrt.HBRelease(x)
	return x.v
}
