// Package sync is the environment model of the standard sync package used by
// both the symbolic executor and the native replay. Every blocking or
// acquiring operation is a scheduling point of the cooperative scheduler.
package sync

import "github.com/anthdm/hollywood/zzrt"

type Locker interface {
	Lock()
	Unlock()
}

type Mutex struct {
	locked bool
}

func (m *Mutex) Lock() {
	zzrt.Point()
	zzrt.Await(func() bool { return !m.locked })
	m.locked = true
	zzrt.HBAcquire(m)
}

func (m *Mutex) TryLock() bool {
	zzrt.Point()
	if m.locked {
		return false
	}
	m.locked = true
	zzrt.HBAcquire(m)
	return true
}

func (m *Mutex) Unlock() {
	if !m.locked {
		panic("sync: unlock of unlocked mutex")
	}
	zzrt.HBRelease(m)
	m.locked = false
}

type RWMutex struct {
	w bool
	r int
}

func (m *RWMutex) Lock() {
	zzrt.Point()
	zzrt.Await(func() bool { return !m.w && m.r == 0 })
	m.w = true
	zzrt.HBAcquire(m)
}

func (m *RWMutex) Unlock() {
	if !m.w {
		panic("sync: Unlock of unlocked RWMutex")
	}
	zzrt.HBRelease(m)
	m.w = false
}

func (m *RWMutex) RLock() {
	zzrt.Point()
	zzrt.Await(func() bool { return !m.w })
	m.r++
	zzrt.HBAcquire(m)
}

func (m *RWMutex) RUnlock() {
	if m.r <= 0 {
		panic("sync: RUnlock of unlocked RWMutex")
	}
	zzrt.HBRelease(m)
	m.r--
}

type WaitGroup struct {
	n int
}

func (wg *WaitGroup) Add(d int) {
	zzrt.Point()
	wg.n += d
	if wg.n < 0 {
		panic("sync: negative WaitGroup counter")
	}
	zzrt.HBRelease(wg)
}

func (wg *WaitGroup) Done() { wg.Add(-1) }

func (wg *WaitGroup) Wait() {
	zzrt.Point()
	zzrt.Await(func() bool { return wg.n == 0 })
	zzrt.HBAcquire(wg)
}

type Once struct {
	done bool
	m    Mutex
}

func (o *Once) Do(f func()) {
	o.m.Lock()
	defer o.m.Unlock()
	if !o.done {
		defer func() { o.done = true }()
		f()
	}
}
