// Package sync is the environment model of the standard sync package used by
// both the symbolic executor and the native replay. Every blocking or
// acquiring operation is a scheduling point of the cooperative scheduler.
package sync

import "github.com/anthdm/hollywood/zzrt"

type Locker interface {
	Lock()
	Unlock()
}

type Mutex struct {
	locked bool
}

func (m *Mutex) Lock() {
	zzrt.Point()
	zzrt.Await(func() bool { return !m.locked })
	m.locked = true
	zzrt.HBAcquire(m)
}

func (m *Mutex) TryLock() bool {
	zzrt.Point()
	if m.locked {
		return false
	}
	m.locked = true
	zzrt.HBAcquire(m)
	return true
}

func (m *Mutex) Unlock() {
	if !m.locked {
		panic("sync: unlock of unlocked mutex")
	}
	zzrt.HBRelease(m)
	m.locked = false
}

// RWMutex: as documented for sync.RWMutex, a blocked Lock call excludes new readers from acquiring the lock
// (so a goroutine that read-locks recursively deadlocks with a writer that arrives in between).
type RWMutex struct {
	w  bool
	r  int
	pw int // writers waiting in Lock
}

func (m *RWMutex) Lock() {
	zzrt.Point()
	m.pw++
	zzrt.Await(func() bool { return !m.w && m.r == 0 })
	m.pw--
	m.w = true
	zzrt.HBAcquire(m)
}

func (m *RWMutex) Unlock() {
	if !m.w {
		panic("sync: Unlock of unlocked RWMutex")
	}
	zzrt.HBRelease(m)
	m.w = false
}

func (m *RWMutex) RLock() {
	zzrt.Point()
	zzrt.Await(func() bool { return !m.w && m.pw == 0 })
	m.r++
	zzrt.HBAcquire(m)
}

func (m *RWMutex) RUnlock() {
	if m.r <= 0 {
		panic("sync: RUnlock of unlocked RWMutex")
	}
	zzrt.HBRelease(m)
	m.r--
}

type WaitGroup struct {
	n int
}

func (wg *WaitGroup) Add(d int) {
	zzrt.Point()
	wg.n += d
	if wg.n < 0 {
		panic("sync: negative WaitGroup counter")
	}
	zzrt.HBRelease(wg)
}

func (wg *WaitGroup) Done() { wg.Add(-1) }

func (wg *WaitGroup) Wait() {
	zzrt.Point()
	zzrt.Await(func() bool { return wg.n == 0 })
	zzrt.HBAcquire(wg)
}

type Once struct {
	done bool
	m    Mutex
}

func (o *Once) Do(f func()) {
	o.m.Lock()
	defer o.m.Unlock()
	if !o.done {
		defer func() { o.done = true }()
		f()
	}
}

// Pool: a LIFO free list (one of the behaviours the real Pool may show; it never drops items).
type Pool struct {
	New   func() any
	items []any
}

func (p *Pool) Get() any {
	zzrt.Point()
	if n := len(p.items); n > 0 {
		x := p.items[n-1]
		p.items = p.items[:n-1]
		zzrt.HBAcquire(p)
		return x
	}
	if p.New != nil {
		return p.New()
	}
	return nil
}

func (p *Pool) Put(x any) {
	zzrt.Point()
	p.items = append(p.items, x)
	zzrt.HBRelease(p)
}

// Map: a mutex-protected map with the method set of sync.Map.
type Map struct {
	mu Mutex
	m  map[any]any
}

func (m *Map) Load(k any) (any, bool) {
	m.mu.Lock()
	defer m.mu.Unlock()
	v, ok := m.m[k]
	return v, ok
}

func (m *Map) Store(k, v any) {
	m.mu.Lock()
	defer m.mu.Unlock()
	if m.m == nil {
		m.m = map[any]any{}
	}
	m.m[k] = v
}

func (m *Map) LoadOrStore(k, v any) (any, bool) {
	m.mu.Lock()
	defer m.mu.Unlock()
	if m.m == nil {
		m.m = map[any]any{}
	}
	if old, ok := m.m[k]; ok {
		return old, true
	}
	m.m[k] = v
	return v, false
}

func (m *Map) Delete(k any) {
	m.mu.Lock()
	defer m.mu.Unlock()
	delete(m.m, k)
}

func (m *Map) Range(f func(k, v any) bool) {
	m.mu.Lock()
	keys := make([]any, 0, len(m.m))
	for k := range m.m {
		keys = append(keys, k)
	}
	m.mu.Unlock()
	for _, k := range keys {
		v, ok := m.Load(k)
		if ok && !f(k, v) {
			return
		}
	}
}
