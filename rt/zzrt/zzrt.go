// Package zzrt is the harness runtime. Under the symbolic executor every
// function here is an intrinsic (the bodies below are not executed); compiled
// natively the same API replays a tape: nondeterministic inputs take the
// solver's values, Choose and the cooperative scheduler take the executor's
// decisions.
package zzrt

import (
	"runtime"
	"encoding/json"
	"fmt"
	"os"
	"reflect"
	"runtime/debug"
	"strings"
)

type tapeT struct {
	Harness string            `json:"harness"`
	Params  map[string]int    `json:"params"`
	Preempt int               `json:"preempt"`
	Nondet  map[string]uint64 `json:"nondet"`
	Choices []int             `json:"choices"`
	Sched   []int             `json:"sched"`
}

var (
	tape      tapeT
	haveTape  bool
	occ       = map[string]int{}
	chooseIdx int
	schedIdx  int
)

func diverged(format string, a ...any) {
	fmt.Printf("ZZ-DIVERGED "+format+"\n", a...)
	os.Exit(4)
}

// Main runs the harness named by the tape given as the first argument.
func Main(table map[string]func()) {
	if len(os.Args) < 2 {
		fmt.Println("usage: zzbin tape.json")
		os.Exit(2)
	}
	b, err := os.ReadFile(os.Args[1])
	if err != nil {
		fmt.Println(err)
		os.Exit(2)
	}
	if err := json.Unmarshal(b, &tape); err != nil {
		fmt.Println(err)
		os.Exit(2)
	}
	haveTape = true
	fn := table[tape.Harness]
	if fn == nil {
		fmt.Println("unknown harness", tape.Harness)
		os.Exit(2)
	}
	main0 := &gthread{id: 0, resume: make(chan struct{}, 1)}
	threads = []*gthread{main0}
	cur = main0
	func() {
		defer func() {
			if r := recover(); r != nil {
				fmt.Printf("ZZ-PANIC %v\n%s\n", r, debug.Stack())
				os.Exit(2)
			}
		}()
		fn()
	}()
	fmt.Println("ZZ-OK")
	os.Exit(0)
}

func nd(name string) uint64 {
	k := fmt.Sprintf("%s#%d", name, occ[name])
	occ[name]++
	if !haveTape {
		return 0
	}
	v, ok := tape.Nondet[k]
	if !ok {
		diverged("nondet %s not on tape", k)
	}
	return v
}

func NondetInt64(name string) int64   { return int64(nd(name)) }
func NondetInt(name string) int       { return int(nd(name)) }
func NondetUint64(name string) uint64 { return nd(name) }
func NondetInt32(name string) int32   { return int32(nd(name)) }
func NondetUint32(name string) uint32 { return uint32(nd(name)) }
func NondetUint8(name string) uint8   { return uint8(nd(name)) }
func NondetBool(name string) bool     { return nd(name) != 0 }

// NondetIntn returns an arbitrary value in [0,n).
func NondetIntn(name string, n int) int { return int(nd(name)) }

func ndSeq(name string, n int) []byte {
	k := fmt.Sprintf("%s#%d", name, occ[name])
	occ[name]++
	b := make([]byte, n)
	for i := range b {
		kk := fmt.Sprintf("%s.%d", k, i)
		v, ok := tape.Nondet[kk]
		if !ok && haveTape {
			diverged("nondet %s not on tape", kk)
		}
		b[i] = byte(v)
	}
	return b
}

// NondetString returns a string of exactly n arbitrary bytes.
func NondetString(name string, n int) string { return string(ndSeq(name, n)) }

// NondetBytes returns n arbitrary bytes.
func NondetBytes(name string, n int) []byte { return ndSeq(name, n) }

// Choose returns an arbitrary value in [0,n); the executor forks on it.
func Choose(n int) int {
	if n <= 1 {
		return 0
	}
	return nextChoice(n)
}

func nextChoice(n int) int {
	if chooseIdx >= len(tape.Choices) {
		if haveTape {
			diverged("choice %d not on tape", chooseIdx)
		}
		return 0
	}
	v := tape.Choices[chooseIdx]
	chooseIdx++
	if v >= n {
		diverged("choice %d out of range %d", v, n)
	}
	return v
}

func Param(name string) int { return tape.Params[name] }

func Assume(c bool) {
	if !c {
		diverged("assumption violated")
	}
}

func Assert(c bool, label string) {
	if !c {
		fmt.Printf("ZZ-ASSERT-FAIL %s\n", label)
		os.Exit(3)
	}
}

func Fail(label string) { Assert(false, label) }

func Tag(label string)             {}
func Reach(label string)           {}
func ReachIf(c bool, label string) {}
func Symbolic() bool               { return false }
func MapOrderAll(on bool)          {}

// MapRotate(k): under the symbolic executor every map range starts k slots into the map's insertion order and
// wraps around (what Go does for a small map, from a random slot); 0 = insertion order. Natively the order is
// Go's own (replays of a counterexample that depends on it are attempted several times).
func MapRotate(k int) {}
func RaceDetect(on bool)           {}
func RaceWatch(on bool)            {}
func HBRelease(obj any)            {}
func RaceAccess(obj any, w bool)   {}
func HBAcquire(obj any)            {}

// Observe records values for translation validation.
func Observe(label string, vals ...any) {
	var sb strings.Builder
	sb.WriteString("ZZ-OBS ")
	sb.WriteString(label)
	for _, v := range vals {
		sb.WriteByte(' ')
		switch x := v.(type) {
		case string:
			fmt.Fprintf(&sb, "%q", x)
		case nil:
			sb.WriteString("<nil>")
		case bool, int, int8, int16, int32, int64, uint, uint8, uint16, uint32, uint64, uintptr:
			fmt.Fprint(&sb, x)
		default:
			rv := reflect.ValueOf(v)
			switch {
			case rv.CanInt():
				fmt.Fprint(&sb, rv.Int())
			case rv.CanUint():
				fmt.Fprint(&sb, rv.Uint())
			case rv.Kind() == reflect.String:
				fmt.Fprintf(&sb, "%q", rv.String())
			case rv.Kind() == reflect.Bool:
				fmt.Fprint(&sb, rv.Bool())
			default:
				sb.WriteString("?")
			}
		}
	}
	fmt.Println(sb.String())
}

// ---- cooperative scheduler (mirrors engine/sched.go) ----

type gthread struct {
	id        int
	resume    chan struct{}
	done      bool
	blocked   func() bool
	hasTimer  bool
	timerAt   int64
	inQuiesce bool
}

var schedTrace = os.Getenv("ZZSCHEDTRACE") != ""

var (
	threads     []*gthread
	cur         *gthread
	preemptions int
)

func ThreadID() int { return cur.id }

func Go(fn func()) {
	t := &gthread{id: len(threads), resume: make(chan struct{}, 1)}
	threads = append(threads, t)
	go func() {
		<-t.resume
		fn()
		t.done = true
		reschedule(t, false)
	}()
	Point()
}

func enabled(t *gthread) bool {
	if t.done {
		return false
	}
	if t.blocked != nil {
		return t.blocked()
	}
	return true
}

func nextSched(n int) int {
	if schedIdx >= len(tape.Sched) {
		return 0
	}
	v := tape.Sched[schedIdx]
	schedIdx++
	if v >= n {
		diverged("schedule choice %d out of range %d", v, n)
	}
	return v
}

func reschedule(me *gthread, canContinue bool) {
	var cands []*gthread
	advanced := false // the clock was moved to a pending timer: the caller itself may be the one that is due
	collect := func() {
		cands = cands[:0]
		for _, t := range threads {
			if t == me {
				if (canContinue || (advanced && enabled(t))) && !t.inQuiesce {
					cands = append(cands, t)
				}
				continue
			}
			if !t.inQuiesce && enabled(t) {
				cands = append(cands, t)
			}
		}
	}
	collect()
	if len(cands) == 0 && advanceToTimer() {
		advanced = true
		collect()
	}
	if len(cands) == 0 {
		for _, t := range threads {
			if t.inQuiesce && !t.done {
				cands = append(cands, t)
			}
		}
	}
	if len(cands) == 0 {
		fmt.Println("ZZ-DEADLOCK")
		os.Exit(5)
	}
	if canContinue && !me.inQuiesce {
		if preemptions >= tape.Preempt || len(cands) == 1 {
			return
		}
		ord := []*gthread{me}
		for _, t := range cands {
			if t != me {
				ord = append(ord, t)
			}
		}
		k := nextSched(len(ord))
		if schedTrace {
			ids := []int{}
			for _, t := range ord {
				ids = append(ids, t.id)
			}
			where := ""
			for d := 2; d < 6; d++ {
				if pc, _, line, ok := runtime.Caller(d); ok {
					where += fmt.Sprintf(" %s:%d", runtime.FuncForPC(pc).Name(), line)
				}
			}
			fmt.Fprintln(os.Stderr, "ZZSCHED preempt-point me", me.id, "cands", ids, "pick", k, where)
		}
		if k == 0 {
			return
		}
		preemptions++
		switchTo(me, ord[k])
		return
	}
	k := 0
	if len(cands) > 1 && tape.Params["ZZDETSCHED"] != 1 {
		// ZZDETSCHED: the first enabled goroutine (creation order) runs, as in the executor - no decision recorded
		k = nextSched(len(cands))
	}
	if schedTrace {
		ids := []int{}
		for _, t := range cands {
			ids = append(ids, t.id)
		}
		fmt.Fprintln(os.Stderr, "ZZSCHED blocking-point me", me.id, "cands", ids, "pick", k)
	}
	if cands[k] == me {
		return
	}
	switchTo(me, cands[k])
}

func switchTo(me, t *gthread) {
	cur = t
	t.resume <- struct{}{}
	if me.done {
		return
	}
	<-me.resume
}

func Point() {
	if len(threads) <= 1 || tape.Params["ZZMARKONLY"] == 1 {
		return
	}
	reschedule(cur, true)
}

// Mark is a scheduling point at a message boundary: the loader inserts a call at the start of
// (*process).invokeMsg in both views, and harnesses call it between their own sends. With the harness parameter
// ZZMARKONLY=1 these are the only points where the running goroutine can be preempted (the ordinary points at
// synchronisation operations then only switch when the goroutine blocks).
func Mark() {
	if len(threads) <= 1 || tape.Params["ZZMARKONLY"] != 1 {
		return
	}
	reschedule(cur, true)
}

func Yield() { Point() }

func Await(cond func() bool) {
	me := cur
	for !cond() {
		me.blocked = cond
		reschedule(me, false)
		me.blocked = nil
	}
}

// AwaitTimer blocks until the harness clock has reached deadline or cond holds. When every thread is blocked
// and timers are pending, the scheduler moves the clock to the earliest deadline (time passes only through
// Sleep/ClockAdvance or when nothing else can happen).
func AwaitTimer(deadline int64, cond func() bool) {
	me := cur
	me.hasTimer, me.timerAt = true, deadline
	Await(func() bool { return clock >= deadline || cond() })
	me.hasTimer = false
}

func advanceToTimer() bool {
	found := false
	var min int64
	for _, t := range threads {
		if !t.done && t.hasTimer && t.blocked != nil && (!found || t.timerAt < min) {
			found, min = true, t.timerAt
		}
	}
	if !found || min <= clock {
		return false
	}
	clock = min
	return true
}

func Quiesce() {
	me := cur
	me.inQuiesce = true
	reschedule(me, false)
	me.inQuiesce = false
}

func NumBlocked() int {
	n := 0
	for _, t := range threads {
		if t != cur && !t.done {
			n++
		}
	}
	return n
}

// ---- channel wrappers (native view only) ----

var closedChans = map[any]bool{}

// MarkClosed must be called before close(ch) so that readiness of a closed
// channel is visible to the cooperative scheduler.
func MarkClosed(ch any) { closedChans[chanKey(ch)] = true }

func chanKey(ch any) any { return reflect.ValueOf(ch).Pointer() }

// ClosePoint: model code calls it right before a raw close(ch); the executor treats close itself as a
// scheduling point (ClosePoint is a no-op there), natively this is that point.
func ClosePoint() { Point() }

func Close[T any](ch chan T) {
	Point()
	MarkClosed(ch)
	close(ch)
}

// pending sends on unbuffered channels: the sender parks a helper goroutine in the real send; a receiver sees
// the channel as ready while one is parked and, after the rendezvous, waits for the helper to mark completion.
type pendingSend struct {
	completed bool
	ack       chan struct{}
}

var pendingSends = map[any][]*pendingSend{}

func readyRecv(ch any) bool {
	rv := reflect.ValueOf(ch)
	if rv.IsNil() {
		return false
	}
	return rv.Len() > 0 || closedChans[rv.Pointer()] || len(pendingSends[rv.Pointer()]) > 0
}

// afterRecv completes the bookkeeping of a rendezvous on an unbuffered channel.
func afterRecv(ch any) {
	k := chanKey(ch)
	if ps := pendingSends[k]; len(ps) > 0 {
		p := ps[0]
		pendingSends[k] = ps[1:]
		<-p.ack
	}
}

// afterSelect: the receive that follows SelectRecv on the chosen channel belongs to the select itself - one
// scheduling point for the whole statement, as in the executor.
var afterSelect bool

func recvPoint() {
	if afterSelect {
		afterSelect = false
		return
	}
	Point()
}

func Recv[T any](ch <-chan T) T {
	recvPoint()
	Await(func() bool { return readyRecv(ch) })
	v, ok := <-ch
	if ok && cap(ch) == 0 {
		afterRecv(ch)
	}
	return v
}

func Recv2[T any](ch <-chan T) (T, bool) {
	recvPoint()
	Await(func() bool { return readyRecv(ch) })
	v, ok := <-ch
	if ok && cap(ch) == 0 {
		afterRecv(ch)
	}
	return v, ok
}

func Send[T any](ch chan<- T, v T) {
	Point()
	rv := reflect.ValueOf(ch)
	limit := rv.Cap()
	if limit == 0 {
		// unbuffered: hand the value to a helper and wait until taken
		p := &pendingSend{ack: make(chan struct{})}
		k := rv.Pointer()
		pendingSends[k] = append(pendingSends[k], p)
		go func() { ch <- v; p.completed = true; close(p.ack) }()
		Await(func() bool { return p.completed })
		return
	}
	Await(func() bool { return rv.Len() < limit || closedChans[rv.Pointer()] })
	ch <- v
}

// SelectRecv blocks until one of the channels can be received from and
// returns the index chosen (the tape decides among several ready ones).
func SelectRecv(chans ...any) int {
	Point()
	ready := func() []int {
		var r []int
		for i, c := range chans {
			if readyRecv(c) {
				r = append(r, i)
			}
		}
		return r
	}
	Await(func() bool { return len(ready()) > 0 })
	rd := ready()
	afterSelect = true
	if len(rd) == 1 {
		return rd[0]
	}
	return rd[nextChoice(len(rd))]
}

// SelectRecvDefault is SelectRecv for a select with a default clause: -1 when no channel is ready.
func SelectRecvDefault(chans ...any) int {
	Point()
	var rd []int
	for i, c := range chans {
		if readyRecv(c) {
			rd = append(rd, i)
		}
	}
	switch len(rd) {
	case 0:
		return -1
	case 1:
		afterSelect = true
		return rd[0]
	}
	afterSelect = true
	return rd[nextChoice(len(rd))]
}

// ---- clock ----

var clock int64

func ClockNow() int64       { return clock }
func ClockAdvance(d int64)  { clock += d }
