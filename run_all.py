#!/usr/bin/env python3
"""Runs setup_cmd and every check of MANIFEST.json (tier = argv[1], default quick; further args = property ids);
validates the evidence files against the schema."""
import json, subprocess, sys, time, os
tier = sys.argv[1] if len(sys.argv) > 1 else "quick"
only = set(sys.argv[2:])
m = json.load(open("/verif/MANIFEST.json"))
env = dict(os.environ, CARGO_NET_OFFLINE="true", GOPROXY="off", PIP_NO_INDEX="1")
if not only:
    r = subprocess.run(m["setup_cmd"], shell=True, cwd="/verif", env=env)
    print("setup exit", r.returncode)
    if r.returncode != 0:
        sys.exit(1)
try:
    import jsonschema
    schema = json.load(open("/root/.vp/EVIDENCE.schema.json"))
except Exception:
    jsonschema = None
bad = 0
for c in m["checks"]:
    if only and c["property_id"] not in only:
        continue
    cmd = c["quick_cmd"] if tier == "quick" else c.get("thorough_cmd", c["quick_cmd"])
    t0 = time.time()
    r = subprocess.run(cmd, shell=True, cwd="/verif", env=env, capture_output=True, text=True)
    dt = time.time() - t0
    lines = (r.stdout + r.stderr).splitlines()
    viol = [l for l in lines if l.startswith("VIOLATION")]
    known = [l for l in lines if l.startswith("KNOWN-FINDING")]
    inc = [l for l in lines if l.startswith("INCONCLUSIVE")]
    try:
        ev = json.load(open(c["evidence_file"]))
        if jsonschema:
            jsonschema.validate(ev, schema)
        fresh = time.time() - os.path.getmtime(c["evidence_file"]) < dt + 5
        ev_ok = "ok" if ev["tier"] == tier and fresh else "stale"
    except Exception as e:
        ev_ok = "INVALID " + str(e)[:80]
    status = "OK" if r.returncode == 0 and not viol and ev_ok == "ok" else "BROKEN"
    if status != "OK":
        bad += 1
    print(f"{c['property_id']} {status} exit={r.returncode} {dt:.1f}s known={len(known)} inconclusive={len(inc)} evidence={ev_ok}", flush=True)
    for l in viol + inc:
        print("   ", l[:200])
sys.exit(1 if bad else 0)
