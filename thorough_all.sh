#!/bin/sh
# Runs the thorough tier of every registered check against /repo (two streams in parallel) and prints one summary
# line per property; used with `vp run -- sh thorough_all.sh` from a snapshot of the committed /verif.
export GOFLAGS=-mod=mod GOPROXY=off GOSUMDB=off GOTOOLCHAIN=local
cd "$(dirname "$0")" || exit 2
(cd engine && go build -o ../bin/gosym .) || exit 2
export GOSYM_VERIF=$PWD GOSYM_OUT=${GOSYM_OUT:-$PWD/out-thorough}
mkdir -p "$GOSYM_OUT"
stream() {
  for p in "$@"; do
    s=$(date +%s)
    ./bin/gosym run $p --tier thorough > "$GOSYM_OUT/$p.log" 2>&1
    rc=$?
    echo "=== $p exit=$rc $(( $(date +%s) - s ))s $(grep "property=$p tier" "$GOSYM_OUT/$p.log")"
    grep "^INCONCLUSIVE\|^VIOLATION\|^UNCONFIRMED\|^TV-MISMATCH" "$GOSYM_OUT/$p.log" | head -5
  done
}
stream C17 C09 C01 C03 C10 C12 C08 C11 &
stream C15 C16 C19 C02 C18 C20 C14 C04 C05 C06 C07 C13 &
wait
echo THOROUGH-DONE
