#!/bin/sh
# Runs the thorough tier of every registered check against /repo (three streams in parallel) and prints one summary
# line per property; used with `vp run -- sh thorough_all.sh` from a snapshot of the committed /verif.
export GOFLAGS=-mod=mod GOPROXY=off GOSUMDB=off GOTOOLCHAIN=local
cd "$(dirname "$0")" || exit 2
(cd engine && go build -o ../bin/gosym .) || exit 2
export GOSYM_VERIF=$PWD GOSYM_OUT=${GOSYM_OUT:-$PWD/out-thorough}
mkdir -p "$GOSYM_OUT"
stream() {
  for p in "$@"; do
    s=$(date +%s)
    ./bin/gosym run $p --tier thorough > "$GOSYM_OUT/$p.log" 2>&1
    rc=$?
    echo "=== $p exit=$rc $(( $(date +%s) - s ))s $(grep "property=$p tier" "$GOSYM_OUT/$p.log")"
    grep "^INCONCLUSIVE\|^VIOLATION\|^UNCONFIRMED\|^TV-MISMATCH" "$GOSYM_OUT/$p.log" | head -5
  done
}
if [ $# -gt 0 ]; then
  # explicit streams: one argument per stream, properties separated by commas (e.g. C17 C15,C02 C01,C09)
  for spec in "$@"; do
    stream $(echo "$spec" | tr ',' ' ') &
  done
  wait
  echo THOROUGH-DONE
  exit 0
fi
# three streams; the cheap checks first in the third one so that a time limit cuts only the largest
stream C17 C01 &
stream C15 C16 &
stream C06 C07 C04 C13 C05 C14 C20 C08 C10 C12 C03 C18 C11 C19 C02 C09 &
wait
echo THOROUGH-DONE
