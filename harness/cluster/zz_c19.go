package cluster

// C19 harness: n real Agents, one per node, on bare engines joined by a
// synchronous in-memory network. Activation requests are handled at once (the
// requester blocks on them in the real system); every other agent message is
// queued and the harness chooses the arrival order while draining (quiescent
// histories). Kind sets and the member picked by the select function are
// chosen per path.

import (
	"github.com/anthdm/hollywood/actor"
	"github.com/anthdm/hollywood/zzrt"
	"github.com/anthdm/hollywood/zzshim/sync"
)

type zzNode struct {
	c     *Cluster
	ze    *actor.ZZEngine
	a     *Agent
	q     []actor.ZZGot
	res   *actor.ZZRecProc
	net   *zzNet
	up    bool
	kindA bool
	spawn int
}

// zzAgentProc is the agent's process: requests are answered synchronously,
// notifications are queued.
type zzAgentProc struct{ n *zzNode }

func (p *zzAgentProc) Start()                  {}
func (p *zzAgentProc) PID() *actor.PID         { return p.n.c.agentPID }
func (p *zzAgentProc) Invoke([]actor.Envelope) {}
func (p *zzAgentProc) Shutdown()               {}
func (p *zzAgentProc) Send(to *actor.PID, msg any, sender *actor.PID) {
	switch msg.(type) {
	case *ActivationRequest, activate, getActive:
		p.n.a.Receive(actor.ZZContext(p.n.ze.E, p.n.c.agentPID, msg, sender))
	default:
		p.n.q = append(p.n.q, actor.ZZGot{To: to, Msg: msg, Sender: sender})
	}
}

type zzNet struct {
	addr  string
	nodes []*zzNode
}

func (r *zzNet) Address() string           { return r.addr }
func (r *zzNet) Start(*actor.Engine) error { return nil }
func (r *zzNet) Stop() *sync.WaitGroup     { return &sync.WaitGroup{} }
func (r *zzNet) Send(to *actor.PID, msg any, sender *actor.PID) {
	for _, n := range r.nodes {
		if n.c.agentPID.Address == to.Address && n.up {
			n.ze.E.SendLocal(to, msg, sender)
		}
	}
}

type zzActivated struct{ n *zzNode }

func (a *zzActivated) Receive(c *actor.Context) {}

func ZZ_C19() {
	N := zzrt.Param("N")
	K := zzrt.Param("K")
	nodes := make([]*zzNode, N)
	for i := range nodes {
		n := &zzNode{up: true}
		n.kindA = zzrt.NondetBool("registersKindA")
		id, addr := "m"+string(rune('0'+i)), "node:"+string(rune('0'+i))
		n.c, n.ze = zzCluster(id, addr)
		if n.kindA {
			nn := n
			n.c.kinds = append(n.c.kinds, newKind("a", func() actor.Receiver { nn.spawn++; return &zzActivated{nn} }, NewKindConfig()))
		}
		n.a = zzAgent(n.c)
		n.ze.RegisterProc("cluster/"+id, &zzAgentProc{n})
		n.res = n.ze.Register("res/0")
		nodes[i] = n
	}
	for _, n := range nodes {
		n.net = &zzNet{addr: n.c.agentPID.Address, nodes: nodes}
		n.ze.SetRemote(n.net)
	}
	inView := make([]bool, N)
	members := func() []*Member {
		ms := []*Member{}
		for i, n := range nodes {
			if inView[i] {
				ms = append(ms, n.c.Member())
			}
		}
		return ms
	}
	drain := func() {
		for {
			var cand []*zzNode
			for _, n := range nodes {
				if n.up && len(n.q) > 0 {
					cand = append(cand, n)
				}
			}
			if len(cand) == 0 {
				return
			}
			n := cand[zzrt.Choose(len(cand))]
			g := n.q[0]
			n.q = n.q[1:]
			n.a.Receive(actor.ZZContext(n.ze.E, n.c.agentPID, g.Msg, g.Sender))
		}
	}
	snapshot := func() {
		ms := members()
		for i, n := range nodes {
			if inView[i] {
				n.a.Receive(actor.ZZContext(n.ze.E, n.c.agentPID, &Members{Members: ms}, nil))
			}
		}
		drain()
	}
	// the last node joins later
	for i := 0; i < N-1; i++ {
		inView[i] = true
	}
	if N == 1 {
		inView[0] = true
	}
	snapshot()

	type act struct {
		id   string
		pid  *actor.PID
		host int
	}
	var active []act
	var spawned *act // an actor made known to the cluster by Cluster.Spawn: kind "ab" (the name of kind "a" is a prefix of it), id "z", on any member
	ids := []string{"x", "http://y/"} // ids are opaque: one that a path- or URL-normalising helper would rewrite
	anyKind := func() bool {
		for i, n := range nodes {
			if inView[i] && n.kindA {
				return true
			}
		}
		return false
	}
	check := func() {
		for i, n := range nodes {
			if !inView[i] {
				continue
			}
			for _, id := range ids {
				var want *actor.PID
				for _, a := range active {
					if a.id == id {
						want = a.pid
					}
				}
				got := n.a.activated["a/"+id]
				if want == nil {
					zzrt.Assert(got == nil, "C19:member-knows-an-actor-that-is-not-active")
				} else {
					zzrt.Assert(got != nil, "C19:member-does-not-know-an-active-actor")
					if got != nil {
						zzrt.Assert(got.Address == want.Address && got.ID == want.ID, "C19:members-disagree-on-the-PID")
					}
				}
			}
			{
				got := n.a.activated["ab/z"]
				if spawned == nil {
					zzrt.Assert(got == nil, "C19:member-knows-an-actor-that-is-not-active")
				} else {
					zzrt.Assert(got != nil && got.Address == spawned.pid.Address && got.ID == spawned.pid.ID, "C19:member-does-not-know-an-active-actor")
				}
			}
			// GetActiveByKind
			before := len(n.res.Got)
			n.ze.E.SendWithSender(n.c.agentPID, getActive{kind: "a"}, n.res.Pid)
			zzrt.Assert(len(n.res.Got) == before+1, "C19:GetActiveByKind-not-answered-once")
			if len(n.res.Got) == before+1 {
				pids, ok := n.res.Got[before].Msg.([]*actor.PID)
				zzrt.Assert(ok && len(pids) == len(active), "C19:GetActiveByKind-differs-from-active-set")
			}
		}
	}

	for step := 0; step < K; step++ {
		zzrt.MapRotate(0)
		if step == K-1 && zzrt.Param("ROT") == 1 {
			// the last operation runs under every rotation of the iteration order of the agents' maps
			zzrt.MapRotate(zzrt.Choose(3))
		}
		switch zzrt.NondetIntn("op", 6) {
		case 5: // Deactivate for a PID that is not active (never activated, or deactivated before): changes nothing
			i := zzrt.Choose(N)
			if !inView[i] {
				zzrt.Assume(false)
			}
			id := ids[zzrt.Choose(len(ids))]
			for _, a := range active {
				if a.id == id {
					zzrt.Assume(false)
				}
			}
			nodes[i].ze.E.Send(nodes[i].c.agentPID, deactivate{pid: actor.NewPID(nodes[i].c.agentPID.Address, "a/"+id)})
			drain()
			zzrt.Quiesce()
			zzrt.Reach("deactivate-of-an-inactive-actor")
		case 4: // Cluster.Spawn on any member, whatever kinds it registered: spawn locally, tell every member
			i := zzrt.Choose(N)
			if !inView[i] || spawned != nil {
				zzrt.Assume(false)
			}
			n := nodes[i]
			pid := n.ze.E.Spawn(func() actor.Receiver { return &zzActivated{n} }, "ab", actor.WithID("z"))
			for _, m := range members() {
				n.ze.E.Send(m.PID(), &Activation{PID: pid})
			}
			drain()
			zzrt.Quiesce()
			spawned = &act{"z", pid, i}
			zzrt.Reach("cluster-spawn")
		case 0: // activate
			i := zzrt.Choose(N)
			if !inView[i] {
				zzrt.Assume(false)
			}
			id := ids[zzrt.Choose(len(ids))]
			n := nodes[i]
			known := false
			for _, a := range active {
				if a.id == id {
					known = true
				}
			}
			spawnsBefore := 0
			for _, m := range nodes {
				spawnsBefore += m.spawn
			}
			var picked *Member
			cfg := NewActivationConfig().WithID(id).WithSelectMemberFunc(func(d ActivationDetails) *Member {
				for _, m := range d.Members {
					zzrt.Assert(m.HasKind("a"), "C19:select-offered-a-member-without-the-kind")
				}
				picked = d.Members[zzrt.Choose(len(d.Members))]
				if zzrt.NondetBool("selectReturnsCopy") {
					// a select function may describe the chosen member by a Member value of its own
					return &Member{ID: picked.ID, Host: picked.Host, Kinds: picked.Kinds, Region: picked.Region}
				}
				return picked
			})
			before := len(n.res.Got)
			n.ze.E.SendWithSender(n.c.agentPID, activate{kind: "a", config: cfg}, n.res.Pid)
			drain()
			zzrt.Quiesce()
			zzrt.Assert(len(n.res.Got) == before+1, "C19:Activate-not-answered-once")
			var pid *actor.PID
			if len(n.res.Got) == before+1 {
				pid, _ = n.res.Got[before].Msg.(*actor.PID)
			}
			spawns := 0
			for _, m := range nodes {
				spawns += m.spawn
			}
			if known || !anyKind() {
				if known {
					zzrt.Reach("duplicate-activation")
				}
				zzrt.Assert(pid == nil, "C19:Activate-returned-a-PID-for-a-known-actor-or-unknown-kind")
				zzrt.Assert(spawns == spawnsBefore, "C19:Activate-spawned-for-a-known-actor-or-unknown-kind")
			} else {
				zzrt.Assert(pid != nil, "C19:Activate-failed-although-a-member-has-the-kind")
				zzrt.Assert(spawns == spawnsBefore+1, "C19:Activate-did-not-spawn-exactly-one-actor")
				if pid != nil && picked != nil {
					zzrt.Assert(pid.Address == picked.Host && pid.ID == "a/"+id, "C19:actor-not-placed-on-the-selected-member")
					host := -1
					for j, m := range nodes {
						if m.c.agentPID.Address == pid.Address {
							host = j
						}
					}
					if host >= 0 {
						zzrt.Assert(nodes[host].kindA && nodes[host].ze.Registered("a/"+id), "C19:actor-not-running-on-a-capable-member")
						if host != i {
							zzrt.Reach("remote-activation")
						}
					}
					active = append(active, act{id, pid, host})
				}
			}
		case 1: // deactivate
			if len(active) == 0 {
				zzrt.Assume(false)
			}
			k := zzrt.Choose(len(active))
			i := zzrt.Choose(N)
			if !inView[i] {
				zzrt.Assume(false)
			}
			a := active[k]
			nodes[i].ze.E.Send(nodes[i].c.agentPID, deactivate{pid: a.pid})
			drain()
			zzrt.Quiesce()
			active = append(active[:k:k], active[k+1:]...)
			zzrt.Assert(!nodes[a.host].ze.Registered("a/"+a.id), "C19:deactivated-actor-still-running")
			zzrt.Reach("deactivate")
		case 2: // the late member joins
			if N < 2 || inView[N-1] || !nodes[N-1].up {
				zzrt.Assume(false)
			}
			inView[N-1] = true
			snapshot()
			if len(active) > 0 {
				zzrt.Reach("join-with-active-actors")
			}
		case 3: // a member other than node 0 leaves
			if N < 2 {
				zzrt.Assume(false)
			}
			j := zzrt.Choose(N-1) + 1
			if !inView[j] {
				zzrt.Assume(false)
			}
			inView[j] = false
			nodes[j].up = false
			rest := active[:0:0]
			for _, a := range active {
				if a.host != j {
					rest = append(rest, a)
				} else {
					zzrt.Reach("leave-with-hosted-actor")
				}
			}
			active = rest
			if spawned != nil && spawned.host == j {
				spawned = nil
				zzrt.Reach("leave-with-cluster-spawned-actor")
			}
			snapshot()
			// it may come back later as a fresh member? no: a left member stays away in this harness
			_ = j
		}
		check()
	}
}

// ZZ_C19_Many: "a member that joins later learns all active actors" with many of them. Member 0 knows M active
// actors (its agent's table is filled directly: M activations through the protocol would only repeat what the
// history harness checks); member 1 joins; once member 0's notifications have been delivered, member 1 resolves
// every one of the M ids to the same PID. One concrete history; M is the bound.
func ZZ_C19_Many() {
	M := zzrt.Param("M")
	nodes := make([]*zzNode, 2)
	for i := range nodes {
		n := &zzNode{up: true}
		id, addr := "m"+string(rune('0'+i)), "node:"+string(rune('0'+i))
		n.c, n.ze = zzCluster(id, addr)
		n.c.kinds = append(n.c.kinds, newKind("a", func() actor.Receiver { return &zzActivated{n} }, NewKindConfig()))
		n.a = zzAgent(n.c)
		n.ze.RegisterProc("cluster/"+id, &zzAgentProc{n})
		n.res = n.ze.Register("res/0")
		nodes[i] = n
	}
	for _, n := range nodes {
		n.net = &zzNet{addr: n.c.agentPID.Address, nodes: nodes}
		n.ze.SetRemote(n.net)
	}
	a0, a1 := nodes[0], nodes[1]
	a0.a.Receive(actor.ZZContext(a0.ze.E, a0.c.agentPID, &Members{Members: []*Member{a0.c.Member()}}, nil))
	ids := make([]string, M)
	for k := 0; k < M; k++ {
		d := []byte{byte('0' + k/100%10), byte('0' + k/10%10), byte('0' + k%10)}
		ids[k] = "a/p" + string(d)
		a0.a.activated[ids[k]] = actor.NewPID("node:0", ids[k])
	}
	both := []*Member{a0.c.Member(), a1.c.Member()}
	a0.a.Receive(actor.ZZContext(a0.ze.E, a0.c.agentPID, &Members{Members: both}, nil))
	a1.a.Receive(actor.ZZContext(a1.ze.E, a1.c.agentPID, &Members{Members: both}, nil))
	for _, n := range nodes {
		for len(n.q) > 0 {
			g := n.q[0]
			n.q = n.q[1:]
			n.a.Receive(actor.ZZContext(n.ze.E, n.c.agentPID, g.Msg, g.Sender))
		}
	}
	for k := 0; k < M; k++ {
		pid := a1.a.activated[ids[k]]
		zzrt.Assert(pid != nil && pid.Address == "node:0" && pid.ID == ids[k], "C19:joiner-does-not-learn-every-active-actor")
	}
	zzrt.Assert(len(a1.a.activated) == M, "C19:joiner-learns-actors-that-are-not-active")
	zzrt.Reach("joiner-learned-many-active-actors")
}
