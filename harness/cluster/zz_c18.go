package cluster

// C18 harness: the real Agent is fed a sequence of membership snapshots over a
// small universe of members; after each snapshot the view, the join/leave
// events and the kind set are compared with the snapshot.

import (
	"github.com/anthdm/hollywood/actor"
	"github.com/anthdm/hollywood/zzrt"
)

func zzCluster(id, addr string, kinds ...string) (*Cluster, *actor.ZZEngine) {
	ze := actor.ZZNewEngine(addr)
	c := &Cluster{config: Config{id: id, region: "default", listenAddr: addr}, engine: ze.E}
	c.agentPID = actor.NewPID(addr, "cluster/"+id)
	c.providerPID = actor.NewPID(addr, "provider/"+id)
	for _, k := range kinds {
		c.kinds = append(c.kinds, newKind(k, nil, NewKindConfig()))
	}
	return c, ze
}

func zzAgent(c *Cluster) *Agent {
	return NewAgent(c)().(*Agent)
}

// zzUniverse: member 0 is the observing node itself.
func zzUniverse(self *Member, u int) []*Member {
	kindSets := [][]string{{"b"}, {"a", "b"}, {}, {"c"}}
	ms := []*Member{self}
	for i := 1; i < u; i++ {
		ms = append(ms, &Member{ID: "m" + string(rune('0'+i)), Host: "node:" + string(rune('0'+i)), Kinds: kindSets[(i-1)%len(kindSets)], Region: "default"})
	}
	return ms
}

func ZZ_C18_Snapshots() {
	U := zzrt.Param("U")
	N := zzrt.Param("N")
	c, ze := zzCluster("m0", "node:0", "a")
	a := zzAgent(c)
	uni := zzUniverse(c.Member(), U)
	allKinds := []string{"a", "b", "c", "d"}
	res := ze.Register("res/0") // receives the agent's answers to getMembers / getKinds

	prev := make([]bool, U)
	for step := 0; step < N; step++ {
		in := make([]bool, U)
		in[0] = true // every provider snapshot contains the observing node
		snap := []*Member{}
		for i := 0; i < U; i++ {
			if i > 0 {
				in[i] = zzrt.NondetBool("inSnapshot")
			}
			if in[i] {
				m := uni[i]
				if i > 0 && zzrt.Param("MOVE") == 1 && zzrt.NondetBool("listedUnderAnotherHost") {
					// the same member (same ID, same kinds) listed under another address: the view is by member ID
					m = &Member{ID: m.ID, Host: "elsewhere:" + string(rune('0'+i)), Kinds: m.Kinds, Region: m.Region}
					zzrt.Reach("member-listed-under-another-host")
				} else if i > 1 && zzrt.Param("MOVE") == 1 && zzrt.NondetBool("listedUnderTheHostOfAnotherMember") {
					// two members with different IDs on one address (a node restarted on the same listen address
					// under a new ID while its old incarnation is still listed): the view is by member ID
					m = &Member{ID: m.ID, Host: uni[i-1].Host, Kinds: m.Kinds, Region: m.Region}
					zzrt.Reach("two-members-on-one-host")
				}
				snap = append(snap, m)
			}
		}
		if len(snap) > 1 && zzrt.NondetBool("duplicate") {
			// duplicate entry
			snap = append(snap, snap[len(snap)-1])
			zzrt.Reach("duplicate-entry")
		}
		evBefore := len(ze.Events())
		if step == N-1 && zzrt.Param("ROT") == 1 {
			// the last snapshot is processed under every rotation of the iteration order of the agent's maps
			zzrt.MapRotate(zzrt.Choose(U))
		}
		a.Receive(actor.ZZContext(ze.E, c.agentPID, &Members{Members: snap}, nil))
		zzrt.MapRotate(0)

		// view == snapshot by ID
		n := 0
		for i := 0; i < U; i++ {
			if in[i] {
				n++
			}
			_, has := a.members.members[uni[i].ID]
			zzrt.Assert(has == in[i], "C18:view-differs-from-snapshot")
		}
		zzrt.Assert(a.members.Len() == n, "C18:view-size-differs-from-snapshot")
		// events
		joins := make([]int, U)
		leaves := make([]int, U)
		for _, ev := range ze.Events()[evBefore:] {
			switch e := ev.(type) {
			case MemberJoinEvent:
				for i := range uni {
					if uni[i].ID == e.Member.ID {
						joins[i]++
					}
				}
			case MemberLeaveEvent:
				for i := range uni {
					if uni[i].ID == e.Member.ID {
						leaves[i]++
					}
				}
			}
		}
		for i := 0; i < U; i++ {
			wantJ, wantL := 0, 0
			if in[i] && !prev[i] {
				wantJ = 1
			}
			if !in[i] && prev[i] {
				wantL = 1
				zzrt.Reach("leave")
			}
			zzrt.Assert(joins[i] == wantJ, "C18:join-events-not-exactly-once-per-new-member")
			zzrt.Assert(leaves[i] == wantL, "C18:leave-events-not-exactly-once-per-dropped-member")
		}
		// kinds: HasKind(k) iff some member of the view advertises k
		for _, k := range allKinds {
			want := false
			for i := 0; i < U; i++ {
				if in[i] && uni[i].HasKind(k) {
					want = true
				}
			}
			zzrt.Assert(a.kinds[k] == want, "C18:kind-set-differs-from-view")
		}
		// what Cluster.Members() and Cluster.HasKind() are answered by the agent (the same messages those
		// methods send; the Request/Result plumbing around them is C11's subject)
		before := len(res.Got)
		a.Receive(actor.ZZContext(ze.E, c.agentPID, getMembers{}, res.Pid))
		a.Receive(actor.ZZContext(ze.E, c.agentPID, getKinds{}, res.Pid))
		zzrt.Assert(len(res.Got) == before+2, "C18:Members-or-HasKind-request-not-answered-once")
		if len(res.Got) == before+2 {
			ms, ok := res.Got[before].Msg.([]*Member)
			zzrt.Assert(ok && len(ms) == n, "C18:Members()-differs-from-snapshot")
			for i := 0; i < U && ok; i++ {
				cnt := 0
				for _, m := range ms {
					if m != nil && m.ID == uni[i].ID {
						cnt++
					}
				}
				want := 0
				if in[i] {
					want = 1
				}
				zzrt.Assert(cnt == want, "C18:Members()-differs-from-snapshot")
			}
			ks, ok := res.Got[before+1].Msg.([]string)
			zzrt.Assert(ok, "C18:HasKind-answer-is-not-a-kind-list")
			for _, k := range allKinds {
				want := false
				for i := 0; i < U; i++ {
					if in[i] && uni[i].HasKind(k) {
						want = true
					}
				}
				has := false
				for _, x := range ks {
					if x == k {
						has = true
					}
				}
				zzrt.Assert(has == want, "C18:HasKind-differs-from-view")
			}
		}
		prev = in
	}
}
