package cluster

// C20 harness: the real SelfManaged provider (after its Started bookkeeping,
// without zeroconf) receives a sequence of handshakes, member lists and
// unreachable reports; its member list is compared with a model after each.

import (
	"github.com/anthdm/hollywood/actor"
	"github.com/anthdm/hollywood/zzrt"
)

func ZZ_C20_Provider() {
	U := zzrt.Param("U")
	N := zzrt.Param("N")
	c, ze := zzCluster("m0", "node:0", "a")
	rem := ze.WithRecRemote()
	agent := ze.Register("cluster/m0")
	s := NewSelfManagedProvider(NewSelfManagedConfig())(c)().(*SelfManaged)
	self := actor.NewPID("node:0", "provider/m0")
	s.pid = self
	prov := ze.Register("provider/m0") // records what is sent to the provider's PID; the harness hands it to Receive
	// what Started does before touching the network
	s.members.Add(c.Member())
	uni := zzUniverse(c.Member(), U)
	if zzrt.Param("SHARE") == 1 {
		// a second member on member 1's address (a node restarted under a new ID on a fixed address): a report for
		// that address removes one member that has it, each time, for as long as there is one
		uni = append(uni, &Member{ID: "m1x", Host: uni[1].Host, Kinds: uni[1].Kinds, Region: "default"})
		U = len(uni)
	}

	in := make([]bool, U)
	in[0] = true
	escaped := false
	deliver := func(msg any, sender *actor.PID) {
		defer func() {
			if v := recover(); v != nil {
				escaped = true
			}
		}()
		s.Receive(actor.ZZContext(ze.E, self, msg, sender))
	}
	for step := 0; step < N && !escaped; step++ {
		zzrt.MapRotate(0)
		if step == N-1 && zzrt.Param("ROT") == 1 {
			// the last message is processed under every rotation of the iteration order of the provider's maps
			zzrt.MapRotate(zzrt.Choose(U))
		}
		agentBefore := len(agent.Got)
		remBefore := len(rem.Sent)
		op := zzrt.Choose(3)
		mustTell := op == 0 // a handshake is always reported; a removal when it removed a member
		switch op {
		case 0: // handshake from a peer
			i := zzrt.Choose(U-1) + 1
			peer := memberToProviderPID(uni[i])
			deliver(&Handshake{Member: uni[i]}, peer)
			in[i] = true
			if !escaped {
				// the peer is answered with the complete member list
				zzrt.Assert(len(rem.Sent) == remBefore+1, "C20:handshake-not-answered-once")
				if len(rem.Sent) == remBefore+1 {
					g := rem.Sent[remBefore]
					ms, ok := g.Msg.(*Members)
					zzrt.Assert(ok && g.To == peer, "C20:handshake-answer-not-a-member-list-to-the-peer")
					if ok {
						zzCheckList(ms.Members, uni, in, "C20:handshake-answer-not-the-complete-member-list")
					}
				}
			}
		case 1: // a member list
			list := []*Member{}
			add := make([]bool, U)
			for i := 0; i < U; i++ {
				if zzrt.NondetBool("inList") {
					add[i] = true
					list = append(list, uni[i])
				}
			}
			deliver(&Members{Members: list}, nil)
			for i := range add {
				if add[i] {
					in[i] = true
				}
			}
		case 2: // unreachable report
			i := zzrt.Choose(U) + 1 // U+1-1 = an address nobody has
			addr := "node:none"
			if i < U {
				addr = uni[i].Host
			}
			var cands []int // members that have the reported address
			for k := 1; k < U; k++ {
				if in[k] && uni[k].Host == addr {
					cands = append(cands, k)
				}
			}
			if len(cands) == 0 {
				zzrt.Reach("unreachable-non-member")
			} else {
				zzrt.Reach("unreachable-member")
				mustTell = true
				if len(cands) > 1 {
					zzrt.Reach("two-members-on-the-reported-address")
				}
			}
			// the report arrives the way it does in production: the provider's event-stream child receives the
			// engine's RemoteUnreachableEvent and turns it into a message to the provider
			provBefore := len(prov.Got)
			func() {
				defer func() {
					if v := recover(); v != nil {
						escaped = true
					}
				}()
				s.handleEventStream(actor.ZZContext(ze.E, actor.NewPID("node:0", "provider/m0/event"), actor.RemoteUnreachableEvent{ListenAddr: addr}, nil))
			}()
			for _, g := range prov.Got[provBefore:] {
				deliver(g.Msg, g.Sender)
			}
			if len(cands) > 0 && !escaped {
				// a member on that address is gone (if several members share the address the property does not say
				// whether one or all of them go: both are accepted; members on other addresses are checked below)
				n := 0
				for _, k := range cands {
					if !s.members.Contains(uni[k]) {
						in[k] = false
						n++
					}
				}
				zzrt.Assert(n >= 1, "C20:unreachable-report-removes-no-member-on-that-address")
			}
		}
		zzrt.Assert(!escaped, "C20:provider-panics")
		if escaped {
			return
		}
		zzCheckList(s.members.Slice(), uni, in, "C20:member-list-differs-from-model")
		// the agent is told the new list
		{
			if mustTell {
				zzrt.Assert(len(agent.Got) > agentBefore, "C20:agent-not-told")
			}
			if len(agent.Got) > agentBefore {
				ms, ok := agent.Got[len(agent.Got)-1].Msg.(*Members)
				zzrt.Assert(ok, "C20:agent-told-something-else")
				if ok {
					zzCheckList(ms.Members, uni, in, "C20:agent-told-a-different-list")
				}
			}
		}
	}
}

// zzCheckList: list holds exactly the members of the universe marked in, once each.
func zzCheckList(list []*Member, uni []*Member, in []bool, label string) {
	n := 0
	for i := range uni {
		cnt := 0
		for _, m := range list {
			if m != nil && m.ID == uni[i].ID {
				cnt++
			}
		}
		want := 0
		if in[i] {
			want = 1
			n++
		}
		zzrt.Assert(cnt == want, label)
	}
	zzrt.Assert(len(list) == n, label)
}

// ZZ_C20_Race: the provider and its event-stream child are two actors on two goroutines. While the provider handles
// the handshake of peer P (delivered before), the engine reports P's address unreachable to the child. The child's
// report reaches the provider behind the handshake, so P must be gone in the end; and the two handlers must not
// touch each other's state without synchronisation (happens-before race detector on the repository's accesses).
func ZZ_C20_Race() {
	c, ze := zzCluster("m0", "node:0", "a")
	ze.WithRecRemote()
	ze.Register("cluster/m0")
	s := NewSelfManagedProvider(NewSelfManagedConfig())(c)().(*SelfManaged)
	self := actor.NewPID("node:0", "provider/m0")
	s.pid = self
	prov := ze.Register("provider/m0")
	s.members.Add(c.Member())
	uni := zzUniverse(c.Member(), 3)
	if zzrt.Choose(2) == 1 {
		// another member is already known
		s.members.Add(uni[2])
	}
	p := uni[1]
	zzrt.RaceDetect(true)
	zzrt.RaceWatch(true)
	zzrt.Go(func() {
		s.Receive(actor.ZZContext(ze.E, self, &Handshake{Member: p}, memberToProviderPID(p)))
	})
	zzrt.Go(func() {
		s.handleEventStream(actor.ZZContext(ze.E, actor.NewPID("node:0", "provider/m0/event"), actor.RemoteUnreachableEvent{ListenAddr: p.Host}, nil))
	})
	zzrt.Quiesce()
	zzrt.RaceWatch(false)
	// what the child sent to the provider is handled by the provider after the handshake
	for _, g := range prov.Got {
		s.Receive(actor.ZZContext(ze.E, self, g.Msg, g.Sender))
	}
	zzrt.Assert(!s.members.Contains(p), "C20:member-reported-unreachable-after-its-handshake-is-still-a-member")
	zzrt.Assert(s.members.Contains(c.Member()), "C20:own-member-removed")
	zzrt.Reach("report-while-the-provider-handles-the-handshake")
}
