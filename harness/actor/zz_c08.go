package actor

// C08 harness (threaded, real inboxes): a supervision tree of depth D and
// fan-out F on a bare engine. Phase 1 (quiescent): optionally a third party
// poisons one child, then Children()/Parent() are probed. Phase 2: the root is
// stopped or poisoned, optionally while a third party poisons a child.

import (
	"github.com/anthdm/hollywood/zzrt"
	"github.com/anthdm/hollywood/zzshim/context"
)

type zzProbe struct{}

type zzTree struct {
	e        *Engine
	D, F     int
	stopped  map[string]bool
	kids     map[string][]*PID // by parent id
	parentOf map[string]string
	early    bool // a node handled Stopped before one of its descendants had
	wrongPar bool
	listed   map[string][]string // Children() as seen by the last probe, by node id
}

type zzNode struct {
	t     *zzTree
	depth int
}

func (n *zzNode) Receive(c *Context) {
	t := n.t
	id := c.PID().ID
	switch c.Message().(type) {
	case Started:
		if par := c.Parent(); par != nil {
			if t.parentOf[id] != par.ID {
				t.wrongPar = true
			}
		} else if n.depth != 0 {
			t.wrongPar = true
		}
		if n.depth < t.D {
			for k := 0; k < t.F; k++ {
				d := n.depth + 1
				cid := id + "/c/" + string(rune('0'+k))
				t.parentOf[cid] = id
				pid := c.SpawnChild(func() Receiver { return &zzNode{t: t, depth: d} }, "c", WithID(string(rune('0'+k))))
				t.kids[id] = append(t.kids[id], pid)
			}
		}
	case Stopped:
		var chk func(string)
		chk = func(p string) {
			for _, k := range t.kids[p] {
				if !t.stopped[k.ID] || t.e.Registry.get(k) != nil {
					t.early = true
				}
				chk(k.ID)
			}
		}
		chk(id)
		t.stopped[id] = true
	case zzProbe:
		l := []string{}
		for _, p := range c.Children() {
			l = append(l, p.ID)
		}
		t.listed[id] = l
	}
}

func ZZ_C08() {
	D := zzrt.Param("D")
	F := zzrt.Param("F")
	e, _ := zzBareEngine()
	t := &zzTree{e: e, D: D, F: F, stopped: map[string]bool{}, kids: map[string][]*PID{}, parentOf: map[string]string{}, listed: map[string][]string{}}
	root := e.Spawn(func() Receiver { return &zzNode{t: t, depth: 0} }, "root", WithID("r"))
	zzrt.Quiesce()
	zzrt.Assert(len(t.kids[root.ID]) == F, "C08:children-not-spawned")
	zzrt.Assert(!t.wrongPar, "C08:Parent-does-not-name-the-spawning-actor")

	// phase 1: a child stops on its own
	victim := -1
	if zzrt.Choose(2) == 1 {
		victim = zzrt.Choose(F)
		ctx := e.Poison(t.kids[root.ID][victim])
		<-ctx.Done()
		zzrt.Reach("child-stopped-on-its-own")
	}
	e.Send(root, zzProbe{})
	zzrt.Quiesce()
	for k, pid := range t.kids[root.ID] {
		listed := false
		for _, id := range t.listed[root.ID] {
			if id == pid.ID {
				listed = true
			}
		}
		zzrt.Assert(listed == (k != victim), "C08:Children-differs-from-live-children")
	}
	want := F
	if victim >= 0 {
		want--
	}
	zzrt.Assert(len(t.listed[root.ID]) == want, "C08:Children-differs-from-live-children")

	// phase 2: the root shuts down, possibly while someone else poisons a child
	third := -1
	if victim < 0 && zzrt.Choose(2) == 1 {
		third = zzrt.Choose(F)
		child := t.kids[root.ID][third]
		zzrt.Go(func() { e.Poison(child) })
		zzrt.Reach("third-party-poisons-child-during-shutdown")
	}
	var ctx context.Context
	if zzrt.Choose(2) == 0 {
		ctx = e.Poison(root)
	} else {
		ctx = e.Stop(root)
	}
	rootDoneEarly := false
	context.OnCancel = func(c context.Context) {
		if c == ctx {
			var chk func(string)
			chk = func(p string) {
				for _, k := range t.kids[p] {
					if !t.stopped[k.ID] || e.Registry.get(k) != nil {
						rootDoneEarly = true
					}
					chk(k.ID)
				}
			}
			chk(root.ID)
			if !t.stopped[root.ID] {
				rootDoneEarly = true
			}
		}
	}
	zzrt.Quiesce()
	if t.early && third >= 0 {
		zzrt.Fail("C08:parent-handled-Stopped-before-a-descendant-was-stopped[child-poisoned-by-third-party-during-shutdown]")
	}
	zzrt.Assert(!t.early, "C08:parent-handled-Stopped-before-a-descendant-was-stopped")
	zzrt.Assert(!rootDoneEarly, "C08:stop-context-done-before-tree-stopped")
	if !ctx.(*context.CancelCtx).IsDone() {
		if third >= 0 {
			zzrt.Fail("C08:parent-shutdown-never-completes[child-poisoned-by-third-party-first]")
		}
		zzrt.Fail("C08:parent-shutdown-never-completes")
	}
	var all func(string)
	all = func(p string) {
		zzrt.Assert(t.stopped[p], "C08:descendant-not-stopped")
		for _, k := range t.kids[p] {
			all(k.ID)
		}
	}
	all(root.ID)
}
