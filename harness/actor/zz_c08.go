package actor

// C08 harness (threaded, real inboxes): a supervision tree of depth D and
// fan-out F on a bare engine. Phase 1 (quiescent): optionally a third party
// poisons one child, then Children()/Parent() are probed. Phase 2: the root is
// stopped or poisoned, optionally while a third party poisons a child.

import (
	"github.com/anthdm/hollywood/zzrt"
	"github.com/anthdm/hollywood/zzshim/context"
)

type zzProbe struct{}

// zzWork keeps the receiving node busy for a while (its Receive yields in the middle).
type zzWork struct{}

// zzBoom makes the receiving node panic (the engine restarts it).
type zzBoom struct{}

// zzBye is what a stopping child tells its parent from inside its Stopped handler.
type zzBye struct{ From string }

// zzRespawn asks a parent to spawn a replacement for the child with index K under the same name and id.
type zzRespawn struct{ K int }

type zzTree struct {
	e           *Engine
	D, F        int
	stopped     map[string]bool
	kids        map[string][]*PID // by parent id
	parentOf    map[string]string
	early       bool // a node handled Stopped before one of its descendants had
	earlyListed bool // ... and that descendant was a child the node still listed
	wrongPar    bool
	listed      map[string][]string // Children() as seen by the last probe, by node id

	crashStop    string // id of the node whose Stopped handler panics once ("" = none)
	crashed      bool
	rechild      string // id of the child that asks its parent for a replacement from inside its Stopped handler
	asked        bool
	replaced     map[string]*PID // replacement children by id
	gen          map[string]int  // incarnations started per id
	stoppedN     map[string]int  // Stopped deliveries per id
	bye          bool            // stopping children say goodbye to their parent
	restartStops int             // Stopped deliveries that belong to a restart
	doomed       bool            // mode 6: the root also spawns a child that dies during its own start
	doomedPID    *PID
	crashing     map[string]bool // the node is panicking on a zzBoom: the next Stopped belongs to that crash
	late         bool            // some node was handed a message after it had handled Stopped
}

type zzNode struct {
	t     *zzTree
	depth int
}

func (n *zzNode) Receive(c *Context) {
	t := n.t
	id := c.PID().ID
	// the node's own state is unsynchronised: whatever delivers to it - its own inbox worker, the spawner, a parent
	// that is shutting down - must be ordered by happens-before with the previous delivery
	zzrt.RaceAccess(n, true)
	if _, busy := c.Message().(zzWork); busy {
		zzrt.Yield()
		zzrt.RaceAccess(n, true)
		return
	}
	switch c.Message().(type) {
	case Started:
		t.gen[id]++
		if par := c.Parent(); par != nil {
			if t.parentOf[id] != par.ID {
				t.wrongPar = true
			}
		} else if n.depth != 0 {
			t.wrongPar = true
		}
		if n.depth == 0 && t.doomed && t.gen[id] == 1 {
			// a child that terminates during its own start (panic in Started, no restart budget)
			t.doomedPID = c.SpawnChild(func() Receiver { return &zzDoomed{t: t} }, "d", WithID("x"), WithMaxRestarts(0))
		}
		if n.depth < t.D && t.gen[id] == 1 {
			for k := 0; k < t.F; k++ {
				d := n.depth + 1
				cid := id + "/c/" + string(rune('0'+k))
				t.parentOf[cid] = id
				pid := c.SpawnChild(func() Receiver { return &zzNode{t: t, depth: d} }, "c", WithID(string(rune('0'+k))))
				t.kids[id] = append(t.kids[id], pid)
			}
		}
	case zzBoom:
		t.crashing[id] = true
		panic("zz-boom")
	case zzBye:
		// queued while this node may already be shutting down (it waits for its children inside cleanup):
		// once it has handled Stopped nothing may be delivered to it any more
		if t.stopped[id] {
			t.late = true
		}
	case zzRespawn:
		m := c.Message().(zzRespawn)
		if n.depth < t.D {
			d := n.depth + 1
			pid := c.SpawnChild(func() Receiver { return &zzNode{t: t, depth: d} }, "c", WithID(string(rune('0'+m.K))))
			t.replaced[pid.ID] = pid
		}
	case Stopped:
		if t.crashing[id] {
			t.crashing[id] = false
			if t.e.Registry.get(c.PID()) != nil {
				// Stopped for a failed incarnation that is being restarted: the actor itself does not stop
				// (when the budget is exhausted cleanup unregisters the actor before it delivers the final Stopped)
				t.restartStops++
				break
			}
		}
		t.stoppedN[id]++
		if t.rechild == id && !t.asked {
			// the stopping child asks for its own replacement and takes its time finishing: the parent may
			// handle the request while this incarnation is still inside its Stopped handler
			t.asked = true
			c.engine.Send(c.Parent(), zzRespawn{K: int(id[len(id)-1] - '0')})
			zzrt.Yield()
		}
		if t.crashStop == id && !t.crashed {
			t.crashed = true
			t.stopped[id] = true
			panic("zz-crash-in-Stopped")
		}
		var chk func(string)
		chk = func(p string) {
			for _, k := range t.kids[p] {
				if !t.stopped[k.ID] || t.e.Registry.get(k) != nil {
					t.early = true
				}
				chk(k.ID)
			}
		}
		chk(id)
		for _, k := range c.Children() {
			// a child this node still lists when it handles its own Stopped: its shutdown did not wait for it
			// (the recorded finding [child-poisoned-by-third-party-during-shutdown] is different: there the
			// child has already removed itself from the list)
			if !t.stopped[k.ID] || t.e.Registry.get(k) != nil {
				t.earlyListed = true
			}
		}
		t.stopped[id] = true
		if par := c.Parent(); par != nil && t.bye {
			c.engine.Send(par, zzBye{From: id})
		}
	case zzProbe:
		l := []string{}
		for _, p := range c.Children() {
			l = append(l, p.ID)
		}
		t.listed[id] = l
	}
}

func ZZ_C08() {
	D := zzrt.Param("D")
	F := zzrt.Param("F")
	e, _ := zzBareEngine()
	t := &zzTree{e: e, D: D, F: F, stopped: map[string]bool{}, kids: map[string][]*PID{}, parentOf: map[string]string{}, listed: map[string][]string{},
		replaced: map[string]*PID{}, gen: map[string]int{}, stoppedN: map[string]int{}, crashing: map[string]bool{}}
	// mode 3 = mode 0 without the third party and without the panicking child (no known finding is reachable):
	// used by C04 for "nothing is delivered after Stopped" when messages are queued during the shutdown
	mode := zzrt.Param("mode") // 0 shutdown interleavings, 1 respawn of the root id during shutdown (C10), 2 a stopping child is replaced (Children bookkeeping)
	// mode 4: the root is spawned WithContext(app context); it may panic once on a user message (and is restarted)
	// before Children() is probed; the app context may be cancelled before the root is stopped. Neither changes
	// what a stopping parent owes its descendants.
	t.doomed = mode == 6
	appCtx, appCancel := context.WithCancel(context.Background())
	budget := 3
	if mode == 5 {
		budget = zzrt.Choose(2) // 0 or 1 restarts allowed
	}
	root := e.Spawn(func() Receiver { return &zzNode{t: t, depth: 0} }, "root", WithID("r"), WithContext(appCtx), WithMaxRestarts(budget), WithRestartDelay(0))
	zzrt.Quiesce()
	zzrt.Assert(len(t.kids[root.ID]) == F, "C08:children-not-spawned")
	if mode == 4 && zzrt.Choose(2) == 1 {
		e.Send(root, zzBoom{})
		zzrt.Quiesce()
		zzrt.Assert(t.gen[root.ID] == 2, "C08:harness-root-not-restarted")
		zzrt.Reach("parent-restarted-with-children")
	}
	if mode == 4 && zzrt.Choose(2) == 1 {
		// "make sure my worker exists": the parent spawns a child id that is already alive - nothing changes,
		// the live child stays listed and is taken down with the parent
		e.Send(root, zzRespawn{K: 0})
		zzrt.Quiesce()
		zzrt.Assert(t.gen[t.kids[root.ID][0].ID] == 1, "C10:duplicate-spawn-ran-its-producer")
		zzrt.Reach("duplicate-spawn-of-a-live-child")
	}
	zzrt.Assert(!t.wrongPar, "C08:Parent-does-not-name-the-spawning-actor")

	if mode == 2 {
		zzC08Replace(t, e, root)
		return
	}
	if mode == 6 {
		// the child that died during its own start is not alive: Children() must not list it, and the root's
		// shutdown still takes the live children down
		zzrt.Assert(t.doomedPID != nil && e.Registry.get(t.doomedPID) == nil && t.stopped[t.doomedPID.ID], "C08:harness-doomed-child-did-not-terminate")
		e.Send(root, zzProbe{})
		zzrt.Quiesce()
		for _, id := range t.listed[root.ID] {
			if t.doomedPID != nil && id == t.doomedPID.ID {
				zzrt.Fail("C08:Children-lists-a-child-that-terminated-during-its-own-start")
			}
		}
		zzrt.Assert(len(t.listed[root.ID]) == F, "C08:Children-differs-from-live-children")
		ctx := e.Poison(root)
		zzrt.Quiesce()
		zzrt.Assert(ctx.(*context.CancelCtx).IsDone(), "C08:parent-shutdown-never-completes")
		zzrt.Assert(!t.early, "C08:parent-handled-Stopped-before-a-descendant-was-stopped")
		zzrt.Reach("child-died-during-its-start")
		return
	}
	if mode == 5 {
		// C06 with children: the root panics until its restart budget is exhausted; the termination must take
		// every child down (they were spawned by the first incarnation) and unregister everything
		for i := 0; i <= budget; i++ {
			e.Send(root, zzBoom{})
			zzrt.Quiesce()
		}
		zzrt.Assert(e.Registry.get(root) == nil, "C06:unregistered-after-max-restarts")
		for _, k := range t.kids[root.ID] {
			zzrt.Assert(t.stopped[k.ID] && e.Registry.get(k) == nil, "C06:children-survive-the-termination-of-their-parent")
		}
		zzrt.Assert(t.stopped[root.ID], "C06:terminated-actor-not-told-Stopped")
		zzrt.Assert(!t.early, "C08:parent-handled-Stopped-before-a-descendant-was-stopped")
		if budget > 0 {
			zzrt.Reach("terminated-after-a-restart")
		}
		return
	}

	// phase 1: a child stops on its own
	victim := -1
	if mode != 4 && zzrt.Choose(2) == 1 {
		victim = zzrt.Choose(F)
		ctx := e.Poison(t.kids[root.ID][victim])
		<-ctx.Done()
		zzrt.Reach("child-stopped-on-its-own")
	}
	e.Send(root, zzProbe{})
	zzrt.Quiesce()
	for k, pid := range t.kids[root.ID] {
		listed := false
		for _, id := range t.listed[root.ID] {
			if id == pid.ID {
				listed = true
			}
		}
		zzrt.Assert(listed == (k != victim), "C08:Children-differs-from-live-children")
	}
	want := F
	if victim >= 0 {
		want--
	}
	zzrt.Assert(len(t.listed[root.ID]) == want, "C08:Children-differs-from-live-children")

	// phase 2: the root shuts down, possibly while someone else poisons a child
	third := -1
	if mode == 0 && victim < 0 && zzrt.Choose(2) == 1 {
		third = zzrt.Choose(F)
		child := t.kids[root.ID][third]
		zzrt.Go(func() { e.Poison(child) })
		zzrt.Reach("third-party-poisons-child-during-shutdown")
	}
	if (mode == 0 || mode == 3) && third < 0 && victim < 0 {
		t.bye = true
	}
	if mode == 3 {
		// a child is busy with a message of its own when the root is told to stop
		zzrt.RaceDetect(true)
		zzrt.RaceWatch(true)
		e.Send(t.kids[root.ID][0], zzWork{})
		zzrt.Reach("child-busy-when-parent-stops")
	}
	if mode == 0 && third < 0 && victim < 0 && zzrt.Choose(2) == 1 {
		// one child panics, once, while handling Stopped during the shutdown cascade
		t.crashStop = t.kids[root.ID][0].ID
		zzrt.Reach("child-panics-in-Stopped")
	}
	respawned, respawnEarly := false, false
	if mode == 1 {
		// somebody spawns the root's id again while the old root shuts down: the id may only be taken again once
		// the previous owner's descendants are down (otherwise two generations of one id are alive together)
		zzrt.Go(func() {
			e.Spawn(func() Receiver {
				respawned = true
				var chk func(string)
				chk = func(p string) {
					for _, k := range t.kids[p] {
						if !t.stopped[k.ID] || e.Registry.get(k) != nil {
							respawnEarly = true
						}
						chk(k.ID)
					}
				}
				chk(root.ID)
				return &zzLeaf{}
			}, "root", WithID("r"))
		})
	}
	if mode == 4 && zzrt.Choose(2) == 1 {
		appCancel()
		zzrt.Reach("app-context-cancelled-before-shutdown")
	}
	var ctx context.Context
	if zzrt.Choose(2) == 0 {
		ctx = e.Poison(root)
	} else {
		ctx = e.Stop(root)
	}
	rootDoneEarly := false
	context.OnCancel = func(c context.Context) {
		if c == ctx {
			var chk func(string)
			chk = func(p string) {
				for _, k := range t.kids[p] {
					if !t.stopped[k.ID] || e.Registry.get(k) != nil {
						rootDoneEarly = true
					}
					chk(k.ID)
				}
			}
			chk(root.ID)
			if !t.stopped[root.ID] {
				rootDoneEarly = true
			}
		}
	}
	zzrt.Quiesce()
	if mode == 1 {
		if respawned {
			zzrt.Reach("root-id-respawned-during-shutdown")
		}
		zzrt.Assert(!respawnEarly, "C10:id-taken-again-while-previous-owner's-descendants-are-alive")
	}
	zzrt.Assert(!t.earlyListed, "C08:parent-handled-Stopped-while-a-child-it-still-lists-was-alive")
	if t.early && third >= 0 {
		zzrt.Fail("C08:parent-handled-Stopped-before-a-descendant-was-stopped[child-poisoned-by-third-party-during-shutdown]")
	}
	zzrt.Assert(!t.late, "C04:delivery-after-Stopped[message-queued-while-the-actor-was-shutting-down]")
	zzrt.Assert(!t.early, "C08:parent-handled-Stopped-before-a-descendant-was-stopped")
	zzrt.Assert(!rootDoneEarly, "C08:stop-context-done-before-tree-stopped")
	if !ctx.(*context.CancelCtx).IsDone() {
		if third >= 0 {
			zzrt.Fail("C08:parent-shutdown-never-completes[child-poisoned-by-third-party-first]")
		}
		zzrt.Fail("C08:parent-shutdown-never-completes")
	}
	var all func(string)
	all = func(p string) {
		zzrt.Assert(t.stopped[p], "C08:descendant-not-stopped")
		for _, k := range t.kids[p] {
			all(k.ID)
		}
	}
	all(root.ID)
}

// zzDoomed panics in its Started handler: with a restart budget of 0 it terminates during its own start.
type zzDoomed struct{ t *zzTree }

func (d *zzDoomed) Receive(c *Context) {
	switch c.Message().(type) {
	case Started:
		panic("zz-doomed-in-Started")
	case Stopped:
		d.t.stopped[c.PID().ID] = true
	}
}

type zzLeaf struct{}

func (*zzLeaf) Receive(*Context) {}

// zzC08Replace (mode 2): a third party poisons child 0; from inside its Stopped handler the child asks the root
// for a replacement under the same name and id. Whenever the root handles that request, afterwards Children()
// must list exactly the live children, and a final shutdown of the root must take the replacement down too.
func zzC08Replace(t *zzTree, e *Engine, root *PID) {
	old := t.kids[root.ID][0]
	t.rechild = old.ID
	ctx0 := e.Poison(old)
	zzrt.Quiesce()
	zzrt.Assert(ctx0.(*context.CancelCtx).IsDone(), "C08:child-stop-never-completes")
	rep := t.replaced[old.ID]
	zzrt.Assert(rep != nil, "C08:harness-replacement-not-requested")
	if rep == nil {
		return
	}
	if t.gen[old.ID] == 2 {
		// the replacement was started and nobody has stopped it: it answers to its id
		zzrt.Assert(e.Registry.get(rep) != nil, "C10:started-actor-is-not-registered")
	}
	live := e.Registry.get(rep) != nil && t.gen[old.ID] == 2
	if live {
		zzrt.Reach("replacement-spawned")
	} else {
		// the request reached the root while the old incarnation was still registered: duplicate id, nothing spawned
		zzrt.Reach("replacement-rejected-as-duplicate")
	}
	e.Send(root, zzProbe{})
	zzrt.Quiesce()
	listed := false
	for _, id := range t.listed[root.ID] {
		if id == old.ID {
			listed = true
		}
	}
	if live {
		zzrt.Assert(listed, "C08:Children-omits-a-live-child")
	}
	// shutdown takes every live descendant down
	ctx := e.Poison(root)
	zzrt.Quiesce()
	zzrt.Assert(ctx.(*context.CancelCtx).IsDone(), "C08:parent-shutdown-never-completes")
	if live {
		zzrt.Assert(t.stoppedN[old.ID] == 2 && e.Registry.get(rep) == nil, "C08:live-child-survives-parent-shutdown")
	}
}
