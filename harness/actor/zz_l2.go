package actor

// L2 threaded unit: a real process with its real Inbox on a bare engine.
// Goroutines: the spawner (SpawnProc), sender goroutines, optionally a second
// spawner of the same id (prop 10) or a Poison caller. The receiver yields in
// the middle of every Receive so that any overlap would be observed.
// prop 2: Receive never overlaps (user, lifecycle, restart);
// prop 4: lifecycle order under concurrent Spawn/Send, sends accepted after
//         registration are delivered after Started;
// prop 10: of concurrent spawns of one id exactly one wins.

import (
	"github.com/anthdm/hollywood/zzrt"
)

type zzL2Mon struct {
	active       int
	overlap      bool
	recs         []zzRec
	incs         int
	crashes      int
	produced     int
	crashStarted bool // the first incarnation panics in its Started handler (on the spawning goroutine)
}

type zzL2Actor struct {
	mon *zzL2Mon
	inc int
	tag int
}

func (a *zzL2Actor) Receive(c *Context) {
	m := a.mon
	zzrt.RaceAccess(m, true) // receiver state is touched without synchronisation: consecutive Receives must be ordered by happens-before
	m.active++
	if m.active != 1 {
		m.overlap = true
	}
	defer func() { m.active-- }()
	zzrt.Yield()
	switch msg := c.Message().(type) {
	case Initialized:
		m.recs = append(m.recs, zzRec{inc: a.inc, kind: zzKInit})
	case Started:
		m.recs = append(m.recs, zzRec{inc: a.inc, kind: zzKStarted})
		if m.crashStarted && a.inc == 1 {
			m.crashes++
			m.recs[len(m.recs)-1].crashed = true
			zzrt.Yield()
			if m.active != 1 {
				m.overlap = true
			}
			panic("zz-crash-started")
		}
	case Stopped:
		m.recs = append(m.recs, zzRec{inc: a.inc, kind: zzKStopped})
	case zzUser:
		m.recs = append(m.recs, zzRec{inc: a.inc, kind: zzKUser, seq: msg.Seq, payload: msg.Payload, sender: c.Sender()})
		if msg.Crash {
			m.crashes++
			m.recs[len(m.recs)-1].crashed = true
			zzrt.Yield()
			if m.active != 1 {
				m.overlap = true
			}
			panic("zz-crash-user")
		}
	}
	zzrt.Yield()
	if m.active != 1 {
		m.overlap = true
	}
}

func ZZ_L2() {
	prop := zzrt.Param("prop")
	T := zzrt.Param("T")
	M := zzrt.Param("M")
	crashOK := zzrt.Param("crash") == 1

	e, sink := zzBareEngine()
	mon := &zzL2Mon{}
	if prop == 2 {
		zzrt.RaceDetect(true)
		zzrt.RaceWatch(true)
	}
	mk := func(tag int) *process {
		opts := DefaultOpts(func() Receiver {
			mon.incs++
			mon.produced++
			return &zzL2Actor{mon: mon, inc: mon.incs, tag: tag}
		})
		opts.Kind, opts.ID = "k", "i"
		opts.InboxSize = 1
		opts.MaxRestarts = 2
		opts.RestartDelay = 0
		return newProcess(e, opts)
	}
	p := mk(0)
	if prop == 2 && crashOK && zzrt.NondetBool("crashInStarted") {
		mon.crashStarted = true
		zzrt.Reach("restart-during-spawn")
	}
	poisonDone, drainedFirst, doneEarly := false, true, false
	accepted := make([][]bool, T)
	crashBudget := 0
	if crashOK && !mon.crashStarted {
		crashBudget = 1
	}
	zzrt.Go(func() {
		zzrt.Mark() // with ZZMARKONLY=1: senders may run before the actor is registered
		e.SpawnProc(p)
	})
	for t := 0; t < T; t++ {
		t := t
		accepted[t] = make([]bool, M)
		crash := make([]bool, M)
		for j := 0; j < M; j++ {
			if crashBudget > 0 && zzrt.NondetBool("crash") {
				crash[j] = true
				crashBudget--
			}
		}
		zzrt.Go(func() {
			for j := 0; j < M; j++ {
				zzrt.Mark() // with ZZMARKONLY=1: senders can be preempted between two sends
				e.SendWithSender(p.pid, zzUser{Seq: t*100 + j, Payload: int64(j), Crash: crash[j]}, nil)
				// accepted = it did not become a dead letter (the PID was registered)
				accepted[t][j] = !sink.deadLetterFor(t*100 + j)
			}
			if prop == 7 && t == 0 {
				// this sender then poisons the actor and waits: when its context is done, everything it sent
				// before (and that was accepted) has been handled, Stopped has been handled, the PID is gone
				ctx := e.Poison(p.pid)
				<-ctx.Done()
				poisonDone = true
				for j := 0; j < M; j++ {
					if accepted[t][j] {
						found := false
						for _, r := range mon.recs {
							if r.kind == zzKUser && r.seq == t*100+j {
								found = true
							}
						}
						if !found {
							drainedFirst = false
						}
					}
				}
				stoppedSeen := false
				for _, r := range mon.recs {
					if r.kind == zzKStopped {
						stoppedSeen = true
					}
				}
				// a Poison that found nobody registered under the id (the spawner had not run yet) is answered at
				// once with a dead letter and says nothing about the actor spawned afterwards
				pillDeadLettered := false
				for _, ev := range sink.evs {
					if d, ok := ev.(DeadLetterEvent); ok {
						if _, ok := d.Message.(poisonPill); ok {
							pillDeadLettered = true
						}
					}
				}
				if !pillDeadLettered && (!stoppedSeen || e.Registry.get(p.pid) != nil) {
					doneEarly = true
				}
				if !pillDeadLettered {
					zzrt.Reach("poison-accepted")
				}
			}
		})
	}
	var p2 *process
	if prop == 10 {
		p2 = mk(1)
		zzrt.Go(func() { e.SpawnProc(p2) })
	}
	zzrt.Quiesce()
	zzrt.RaceWatch(false)
	{
		// vacuity witness for the message-boundary mode: the messages of one sender were handled with another
		// sender's message in between
		lastOf := -1
		seen := map[int]bool{}
		for _, r := range mon.recs {
			if r.kind != zzKUser {
				continue
			}
			snd := r.seq / 100
			if snd != lastOf && seen[snd] {
				zzrt.Reach("senders-interleaved")
			}
			seen[snd] = true
			lastOf = snd
		}
	}

	zzrt.Assert(!mon.overlap, "C02:Receive-overlaps")
	if prop == 2 {
		if mon.crashes > 0 {
			zzrt.Reach("restart")
		}
		return
	}
	if prop == 7 {
		zzrt.Assert(poisonDone, "C07:stop-context-never-done")
		zzrt.Assert(drainedFirst, "C07:poison-drains-earlier-messages-first")
		zzrt.Assert(!doneEarly, "C07:done-only-after-Stopped-handled-and-unregistered")
		for _, r := range mon.recs {
			_ = r
		}
		zzrt.Reach("poison-waited-for")
		return
	}
	if prop == 5 {
		// concurrent senders while the actor crashes and restarts (the restart runs on the inbox worker while the
		// senders keep pushing): every accepted message is handed to Receive exactly once - the failing one
		// included, and it is not redelivered -, per-sender order is kept across the incarnations, each
		// incarnation sees Initialized, Started before any message, the failed one is told Stopped
		if mon.crashes > 0 {
			zzrt.Reach("restart")
		}
		seen := map[int]int{}
		last := make([]int, T)
		for t := range last {
			last[t] = -1
		}
		state := map[int]int{}
		for _, r := range mon.recs {
			switch r.kind {
			case zzKInit:
				zzrt.Assert(state[r.inc] == 0, "C05:fresh-incarnation-not-initialised-first")
				state[r.inc] = 1
			case zzKStarted:
				zzrt.Assert(state[r.inc] == 1, "C05:fresh-incarnation-not-initialised-first")
				state[r.inc] = 2
			case zzKStopped:
				state[r.inc] = 3
			case zzKUser:
				zzrt.Assert(state[r.inc] == 2, "C05:message-delivered-to-an-incarnation-that-is-not-started")
				seen[r.seq]++
				t, j := r.seq/100, r.seq%100
				zzrt.Assert(j > last[t], "C05:message-redelivered-or-reordered")
				last[t] = j
			}
		}
		for t := range accepted {
			for j := range accepted[t] {
				if accepted[t][j] {
					zzrt.Assert(seen[t*100+j] == 1, "C05:queued-messages-delivered-exactly-once")
				}
			}
		}
		if mon.crashes > 0 {
			zzrt.Assert(state[1] == 3, "C05:failed-incarnation-not-told-Stopped")
			zzrt.Assert(mon.incs == mon.crashes+1, "C05:fresh-receiver-per-crash")
			n, ordOK := sink.countRestarted()
			zzrt.Assert(n == mon.crashes && ordOK, "C05:one-ActorRestartedEvent-per-crash")
		}
		return
	}
	if prop == 10 {
		zzrt.Assert(mon.produced == 1, "C10:second-producer-ran")
		zzrt.Assert(sink.count(5) == 1, "C10:no-single-ActorDuplicateIdEvent")
		zzrt.Assert(e.Registry.GetPID("k", "i") != nil, "C10:winner-not-registered")
		starts := 0
		for _, r := range mon.recs {
			if r.kind == zzKStarted {
				starts++
			}
		}
		zzrt.Assert(starts == 1, "C10:two-actors-started-for-one-id")
	}
	// prop 4 (also checked under prop 10): lifecycle order and retention
	if mon.crashes == 0 {
		state := 0
		last := make([]int, T)
		for t := range last {
			last[t] = -1
		}
		nuser := 0
		for _, r := range mon.recs {
			switch r.kind {
			case zzKInit:
				zzrt.Assert(state == 0, "C04:Initialized-not-first")
				state = 1
			case zzKStarted:
				zzrt.Assert(state == 1, "C04:Started-not-after-Initialized")
				state = 2
			case zzKUser:
				zzrt.Assert(state == 2, "C04:user-message-before-Started")
				t, j := r.seq/100, r.seq%100
				zzrt.Assert(j > last[t], "C01:per-sender-order-broken")
				last[t] = j
				nuser++
			case zzKStopped:
				zzrt.Fail("C04:Stopped-without-stop")
			}
		}
		want := 0
		early := false
		for t := range accepted {
			for j := range accepted[t] {
				if accepted[t][j] {
					want++
				} else {
					early = true
				}
			}
		}
		if early {
			zzrt.Reach("send-before-registration")
		}
		if want > 0 && want < T*M {
			zzrt.Reach("partially-accepted")
		}
		zzrt.Assert(nuser == want, "C04:accepted-message-not-delivered-after-Started")
	}
}

func (s *zzSink) deadLetterFor(seq int) bool {
	for _, ev := range s.evs {
		if d, ok := ev.(DeadLetterEvent); ok {
			if u, ok := d.Message.(zzUser); ok && u.Seq == seq {
				return true
			}
		}
	}
	return false
}

// ZZ_C10_Seq: spawn / duplicate spawn / stop / respawn histories on one id
// (sequential, fake inbox so that pending messages can be inspected).
// zzDiesAtStart panics in every Started.
type zzDiesAtStart struct{}

func (zzDiesAtStart) Receive(c *Context) {
	if _, ok := c.Message().(Started); ok {
		panic("zz-dies-at-start")
	}
}

func ZZ_C10_Seq() {
	K := zzrt.Param("K")
	e, sink := zzBareEngine()
	produced := 0
	var cur *process // the process that currently owns the id, if any
	var curFake *zzFakeInbox
	mon := &zzMon{maxCrashes: 0}
	mk := func() (*process, *zzFakeInbox) {
		opts := DefaultOpts(func() Receiver {
			produced++
			mon.incs++
			return &zzActor{mon: mon, inc: mon.incs}
		})
		opts.Kind, opts.ID = "k", "i"
		p := newProcess(e, opts)
		f := &zzFakeInbox{}
		p.inbox = f
		return p, f
	}
	sentN := 0
	for s := 0; s < K; s++ {
		switch zzrt.NondetIntn("op", 5) {
		case 4: // an actor spawned under the id dies during its own start (Started panics until the restart budget
			// of 0 or 1 is used up) on a real inbox that never ran: it never becomes live, the id is free again
			if cur != nil {
				zzrt.Assume(false)
			}
			opts := DefaultOpts(func() Receiver { return &zzDiesAtStart{} })
			opts.Kind, opts.ID = "k", "i"
			opts.MaxRestarts = int32(zzrt.Choose(2))
			opts.RestartDelay = 0
			dupBefore := sink.count(5)
			e.SpawnProc(newProcess(e, opts))
			zzrt.Assert(sink.count(5) == dupBefore, "C10:spurious-ActorDuplicateIdEvent")
			zzrt.Reach("died-during-its-own-start")
		case 0: // spawn the id
			p, f := mk()
			before, dupBefore := produced, sink.count(5)
			pending := 0
			if cur != nil {
				pending = len(curFake.q)
			}
			pid := e.SpawnProc(p)
			zzrt.Assert(pid != nil && pid.ID == "k/i", "C10:spawn-returns-other-pid")
			if cur != nil {
				zzrt.Reach("duplicate-spawn")
				zzrt.Assert(produced == before, "C10:duplicate-spawn-ran-its-producer")
				zzrt.Assert(sink.count(5) == dupBefore+1, "C10:duplicate-spawn-without-ActorDuplicateIdEvent")
				zzrt.Assert(e.Registry.get(pid) == Processer(cur), "C10:duplicate-spawn-replaced-the-actor")
				zzrt.Assert(len(curFake.q) == pending, "C10:duplicate-spawn-touched-pending-messages")
			} else {
				zzrt.Assert(produced == before+1, "C10:spawn-of-free-id-did-not-start-an-actor")
				zzrt.Assert(sink.count(5) == dupBefore, "C10:spurious-ActorDuplicateIdEvent")
				cur, curFake = p, f
				if mon.incs > 1 {
					zzrt.Reach("respawn-after-stop")
				}
			}
		case 1: // send
			sentN++
			e.Send(NewPID(e.address, "k/i"), zzUser{Seq: sentN})
		case 2: // stop and let the actor handle it
			if cur == nil {
				zzrt.Assume(false)
			}
			ctx := e.Stop(cur.pid)
			for curFake.deliverable() {
				curFake.deliver()
			}
			_ = ctx
			cur, curFake = nil, nil
		case 3: // deliver pending messages
			if cur == nil || !curFake.deliverable() {
				zzrt.Assume(false)
			}
			curFake.deliver()
		}
		// GetPID answers exactly while registered
		got := e.Registry.GetPID("k", "i")
		zzrt.Assert((got != nil) == (cur != nil), "C10:GetPID-disagrees-with-liveness")
	}
}
