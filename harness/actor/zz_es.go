package actor

// Event-stream unit (sequential): the real eventStream receiver behind a
// queueing process on a bare engine, so that the harness decides when queued
// events are handled. Param "prop": 9 (undeliverable messages) or 12
// (subscribe / unsubscribe / broadcast histories).

import (
	"github.com/anthdm/hollywood/zzrt"
	"github.com/anthdm/hollywood/zzshim/rand"
)

type zzQueueProc struct {
	pid  *PID
	recv Receiver
	e    *Engine
	q    []Envelope
	n    int
}

func (p *zzQueueProc) Start()            {}
func (p *zzQueueProc) PID() *PID         { return p.pid }
func (p *zzQueueProc) Invoke([]Envelope) {}
func (p *zzQueueProc) Shutdown()         {}
func (p *zzQueueProc) Send(_ *PID, msg any, sender *PID) {
	p.q = append(p.q, Envelope{Msg: msg, Sender: sender})
}

// step hands the oldest queued message to the real receiver.
func (p *zzQueueProc) step() {
	env := p.q[0]
	p.q = p.q[1:]
	p.n++
	c := newContext(nil, p.e, p.pid)
	c.receiver = p.recv
	c.message = env.Msg
	c.sender = env.Sender
	p.recv.Receive(c)
}

type zzEvt struct{ N int }

// zzEngineWithStream: NewEngine with default configuration (the id drawn for the event stream actor fixed), its
// event stream actor started and idle.
func zzEngineWithStream() (*Engine, *process) {
	rand.ZZFix(1)
	e, err := NewEngine(NewEngineConfig())
	rand.ZZFix(-1)
	zzrt.Assert(err == nil && e != nil, "engine-not-created")
	zzrt.Quiesce()
	real, _ := e.Registry.get(e.eventStream).(*process)
	zzrt.Assert(real != nil, "event-stream-not-registered")
	return e, real
}

func ZZ_ES() {
	prop := zzrt.Param("prop")
	K := zzrt.Param("K")
	S := zzrt.Param("S")
	L := zzrt.Param("L")

	// the engine as NewEngine builds it; its event stream actor is then replaced, under the same PID, by a
	// queueing process around a receiver made by the same Producer
	e, real := zzEngineWithStream()
	es := &zzQueueProc{pid: e.eventStream, recv: real.Producer(), e: e}
	e.Registry.lookup[es.pid.ID] = es

	subs := make([]*ZZRecProc, S)
	subscribed := make([]bool, S)
	alive := make([]bool, S)
	want := make([][]int, S) // per subscriber: the event numbers it must see, in order
	for i := range subs {
		subs[i] = &ZZRecProc{Pid: NewPID(e.address, "sub"+pidSeparator+string(rune('0'+i)))}
		e.Registry.lookup[subs[i].Pid.ID] = subs[i]
		alive[i] = true
	}
	senderA := NewPID("local", "sender/a")
	ghost := NewPID(e.address, "ghost"+pidSeparator+"x")
	foreign := NewPID("elsewhere:1", "far"+pidSeparator+"y")

	type sendRec struct {
		n       int
		kind    int // 0 dead letter, 1 remote missing
		sender  *PID
		mustSee []bool
	}
	var sends []sendRec
	evN := 0
	escaped := false
	storm := false

	drain := func() {
		for i := 0; len(es.q) > 0; i++ {
			if i >= L {
				storm = true
				return
			}
			es.step()
		}
	}
	guard := func(f func()) {
		defer func() {
			if v := recover(); v != nil {
				escaped = true
			}
		}()
		f()
	}
	mark := func() []bool {
		m := make([]bool, S)
		for i := range m {
			m[i] = subscribed[i] && alive[i]
		}
		return m
	}

	nops := 3
	if prop == 9 {
		nops = 7
	}
	if prop == 12 && zzrt.Param("X") == 1 {
		nops = 4 // + unsubscribe of some other PID
	}
	for step := 0; step < K && !escaped && !storm; step++ {
		op := zzrt.NondetIntn("op", nops)
		switch op {
		case 0: // subscribe, with the registered PID object or an equal PID in a distinct object
			i := zzrt.Choose(S)
			pid := subs[i].Pid
			if zzrt.NondetBool("distinctObject") {
				pid = NewPID(pid.Address, pid.ID)
				zzrt.Reach("equal-pid-distinct-object")
			}
			guard(func() { e.Subscribe(pid) })
			subscribed[i] = true
		case 1: // unsubscribe by value
			i := zzrt.Choose(S)
			pid := subs[i].Pid
			if zzrt.NondetBool("distinctObject") {
				pid = NewPID(pid.Address, pid.ID)
			}
			guard(func() { e.Unsubscribe(pid) })
			subscribed[i] = false
		case 2: // broadcast
			if zzrt.Param("X") == 1 && zzrt.NondetBool("lifecycleEventFirst") {
				// an engine lifecycle event that names a subscriber's PID (a predecessor under the same id stopped
				// earlier and its event arrives now) is an event like any other: it changes nobody's subscription
				i := zzrt.Choose(S)
				guard(func() { e.BroadcastEvent(ActorStoppedEvent{PID: NewPID(subs[i].Pid.Address, subs[i].Pid.ID)}) })
				guard(drain)
				zzrt.Reach("lifecycle-event-naming-a-subscriber")
			}
			evN++
			for i := range subs {
				if subscribed[i] && alive[i] {
					want[i] = append(want[i], evN)
				}
			}
			guard(func() { e.BroadcastEvent(zzEvt{evN}) })
		case 3: // send to a PID nobody answers to
			if prop == 12 {
				// Unsubscribe for a PID that is NOT one of the subscribers (address and id are symbolic strings, the
				// split between them is chosen, only being equal to a subscriber's PID is excluded): nobody's
				// subscription may be affected
				total := len(subs[0].Pid.Address) + len(subs[0].Pid.ID)
				k := zzrt.Choose(total-1) + 1
				other := NewPID(zzrt.NondetString("otherAddr", k), zzrt.NondetString("otherID", total-k))
				for i := range subs {
					zzrt.Assume(!(other.Address == subs[i].Pid.Address && other.ID == subs[i].Pid.ID))
				}
				guard(func() { e.Unsubscribe(other) })
				zzrt.Reach("unsubscribe-of-another-pid")
				break
			}
			evN++
			var snd *PID
			if zzrt.NondetBool("withSender") {
				snd = senderA
			}
			if zzrt.NondetBool("nilMessage") {
				// any message value, nil included, must surface as a dead letter and leave the event stream intact
				evN--
				guard(func() { e.SendWithSender(ghost, nil, snd) })
				zzrt.Reach("nil-message")
				break
			}
			sends = append(sends, sendRec{evN, 0, snd, mark()})
			if zzrt.NondetBool("eventValuedMessage") {
				// the undeliverable message may be any value, also one of the engine's own event types (a handler
				// that forwards the dead letters it receives to an auditor that has since stopped)
				guard(func() { e.SendWithSender(ghost, DeadLetterEvent{Target: foreign, Message: zzUser{Seq: evN}}, snd) })
				zzrt.Reach("event-valued-message")
				break
			}
			guard(func() { e.SendWithSender(ghost, zzUser{Seq: evN}, snd) })
		case 4: // send to a foreign address, no remote configured
			evN++
			sends = append(sends, sendRec{evN, 1, nil, mark()})
			if zzrt.NondetBool("foreignIdEqualsALocalActor") {
				// the foreign PID's id is also the id of a live local actor: it is still a foreign target
				foreign = NewPID("elsewhere:1", subs[0].Pid.ID)
				zzrt.Reach("foreign-pid-with-a-local-id")
			} else {
				foreign = NewPID("elsewhere:1", "far"+pidSeparator+"y")
			}
			guard(func() { e.Send(foreign, zzUser{Seq: evN}) })
		case 5: // nil target
			guard(func() { e.Send(nil, zzUser{Seq: -1}) })
		case 6: // a subscriber stops (is unregistered) without unsubscribing
			i := zzrt.Choose(S)
			if !alive[i] {
				zzrt.Assume(false)
			}
			alive[i] = false
			delete(e.Registry.lookup, subs[i].Pid.ID)
			if subscribed[i] {
				zzrt.Reach("stopped-subscriber")
			}
		}
		guard(drain)
	}

	if prop == 9 {
		zzrt.Assert(!escaped, "C09:send-panics")
		dead := false
		for i := range subs {
			if !alive[i] && subscribed[i] {
				dead = true
			}
		}
		if storm {
			if dead {
				zzrt.Fail("C09:finite-sends-produce-unbounded-events[stopped-subscriber]")
			}
			zzrt.Fail("C09:finite-sends-produce-unbounded-events")
		}
		if escaped {
			return
		}
		for i := range subs {
			for _, g := range subs[i].Got {
				if _, raw := g.Msg.(zzUser); raw {
					zzrt.Fail("C09:message-for-a-foreign-address-delivered-to-a-local-actor")
				}
			}
		}
		for _, sr := range sends {
			for i := range subs {
				n := 0
				for _, g := range subs[i].Got {
					switch ev := g.Msg.(type) {
					case DeadLetterEvent:
						inner := ev.Message
						if w, ok := inner.(DeadLetterEvent); ok {
							inner = w.Message // an event-valued message: the original is one level down
						}
						if u, ok := inner.(zzUser); ok && u.Seq == sr.n {
							n++
							zzrt.Assert(sr.kind == 0, "C09:dead-letter-for-foreign-target")
							zzrt.Assert(ev.Target == ghost && ev.Sender == sr.sender, "C09:dead-letter-loses-target-or-sender")
						}
					case EngineRemoteMissingEvent:
						if u, ok := ev.Message.(zzUser); ok && u.Seq == sr.n {
							n++
							zzrt.Assert(sr.kind == 1, "C09:remote-missing-for-local-target")
							zzrt.Assert(ev.Target != nil && ev.Target.Address == "elsewhere:1", "C09:remote-missing-loses-target")
						}
					}
				}
				if sr.mustSee[i] && alive[i] {
					zzrt.Assert(n == 1, "C09:undeliverable-message-not-reported-exactly-once")
				} else {
					zzrt.Assert(n <= 1, "C09:undeliverable-message-reported-twice")
				}
			}
		}
		return
	}

	// prop 12
	if escaped || storm {
		zzrt.Fail("C12:event-stream-panics")
	}
	for i := range subs {
		got := []int{}
		for _, g := range subs[i].Got {
			if ev, ok := g.Msg.(zzEvt); ok {
				got = append(got, ev.N)
			}
		}
		for k := range got {
			if k > 0 && got[k] == got[k-1] {
				zzrt.Fail("C12:event-delivered-twice")
			}
		}
		if len(got) > len(want[i]) {
			zzrt.Fail("C12:event-delivered-after-unsubscribe")
		}
		zzrt.Assert(len(got) == len(want[i]), "C12:event-not-delivered-to-subscriber")
		for k := range got {
			if k < len(want[i]) {
				zzrt.Assert(got[k] == want[i][k], "C12:events-out-of-order")
			}
		}
	}
}

// ZZ_C12_Threads: the event stream as the engine runs it - a real process with
// its real Inbox and worker goroutines - with G goroutines that each subscribe
// their own (recording) subscriber, broadcast two events, unsubscribe and
// broadcast a third. Schedules are explored up to the preemption bound. Oracle
// per goroutine: its own first two events reach its own subscriber exactly
// once and in broadcast order (they are broadcast after the Subscribe and
// before the Unsubscribe in program order), its third event never does;
// events of the other goroutine arrive at most once each and in that
// goroutine's broadcast order.
func ZZ_C12_Threads() {
	G := zzrt.Param("G")
	e, _ := zzEngineWithStream()
	// a subscriber on another node: what the event stream hands to the engine's remote for it, in that order
	rem := &ZZRecRemote{Addr: e.address}
	e.remote = rem
	far := NewPID("elsewhere:1", "sub"+pidSeparator+"far")
	e.Subscribe(far)
	zzrt.Quiesce()
	subs := make([]*ZZRecProc, G)
	for i := range subs {
		subs[i] = &ZZRecProc{Pid: NewPID(e.address, "sub"+pidSeparator+string(rune('0'+i)))}
		e.Registry.lookup[subs[i].Pid.ID] = subs[i]
	}
	for g := 0; g < G; g++ {
		g := g
		zzrt.Go(func() {
			e.Subscribe(subs[g].Pid)
			e.BroadcastEvent(zzEvt{g*10 + 1})
			e.BroadcastEvent(zzEvt{g*10 + 2})
			e.Unsubscribe(NewPID(subs[g].Pid.Address, subs[g].Pid.ID)) // by value
			e.BroadcastEvent(zzEvt{g*10 + 3})
		})
	}
	zzrt.Quiesce()
	{
		// the remote subscriber: every broadcast exactly once, each goroutine's events in its broadcast order
		last := make([]int, G)
		n := 0
		for _, got := range rem.Sent {
			ev, ok := got.Msg.(zzEvt)
			if !ok {
				continue
			}
			zzrt.Assert(got.To == far, "C12:event-for-remote-subscriber-addressed-elsewhere")
			from, k := ev.N/10, ev.N%10
			if from < 0 || from >= G || k <= last[from] {
				zzrt.Fail("C12:remote-subscriber-gets-events-twice-or-out-of-order")
			}
			last[from] = k
			n++
		}
		zzrt.Assert(n == 3*G, "C12:remote-subscriber-misses-events")
	}
	for g := 0; g < G; g++ {
		last := make([]int, G)
		for _, got := range subs[g].Got {
			ev, ok := got.Msg.(zzEvt)
			if !ok {
				continue
			}
			from, k := ev.N/10, ev.N%10
			if from < 0 || from >= G {
				zzrt.Fail("C12:foreign-event")
			}
			if k <= last[from] {
				zzrt.Fail("C12:event-delivered-twice-or-out-of-order")
			}
			last[from] = k
			if from == g && k == 3 {
				zzrt.Fail("C12:event-delivered-after-unsubscribe")
			}
		}
		zzrt.Assert(last[g] == 2, "C12:event-not-delivered-to-subscriber")
		n := 0
		for _, got := range subs[g].Got {
			if ev, ok := got.Msg.(zzEvt); ok && ev.N/10 == g {
				n++
			}
		}
		zzrt.Assert(n == 2, "C12:event-not-delivered-exactly-once")
		if len(subs[g].Got) > 2 {
			zzrt.Reach("saw-events-of-the-other-broadcaster")
		}
	}
}

// ZZ_C09_Conc: sends to an unregistered local PID while other goroutines spawn and stop actors and subscribe
// (registry writers). Sending must not block its caller: every goroutine finishes (a deadlock is reported by the
// scheduler), and every undeliverable message is published as a dead letter exactly once with its target and
// sender. The engine is the one NewEngine builds (real event stream actor and inbox).
func ZZ_C09_Conc() {
	G := zzrt.Param("G")
	e, _ := zzEngineWithStream()
	sub := &ZZRecProc{Pid: NewPID(e.address, "sub"+pidSeparator+"0")}
	e.Registry.lookup[sub.Pid.ID] = sub
	e.Subscribe(sub.Pid)
	zzrt.Quiesce()
	ghost := NewPID(e.address, "ghost"+pidSeparator+"x")
	from := NewPID(e.address, "sender"+pidSeparator+"a")
	sent := 0
	for g := 0; g < G; g++ {
		g := g
		sent++
		zzrt.Go(func() { e.SendWithSender(ghost, zzEvt{g}, from) })
	}
	var spawned *PID
	zzrt.Go(func() {
		spawned = e.SpawnFunc(func(*Context) {}, "w", WithID("1"))
		<-e.Poison(spawned).Done()
	})
	zzrt.Quiesce()
	zzrt.Assert(spawned != nil && e.Registry.get(spawned) == nil, "C09:spawner-did-not-finish")
	n := make([]int, G)
	for _, got := range sub.Got {
		d, ok := got.Msg.(DeadLetterEvent)
		if !ok {
			continue
		}
		ev, ok := d.Message.(zzEvt)
		if !ok {
			continue
		}
		zzrt.Assert(ev.N >= 0 && ev.N < G && d.Target == ghost && d.Sender == from, "C09:dead-letter-with-wrong-target-or-sender")
		if ev.N >= 0 && ev.N < G {
			n[ev.N]++
		}
	}
	for g := 0; g < G; g++ {
		zzrt.Assert(n[g] == 1, "C09:undeliverable-message-not-published-exactly-once")
	}
	zzrt.Reach("dead-letters-while-the-registry-is-written")
}

// ZZ_C12_Prune: S subscribers subscribe in a chosen order; some of them then stop without unsubscribing (their
// PIDs leave the registry); the events broadcast afterwards must reach every remaining subscriber exactly once
// and in order, whatever the position of the dead ones in the event stream's bookkeeping.
func ZZ_C12_Prune() {
	S := zzrt.Param("S")
	e, real := zzEngineWithStream()
	es := &zzQueueProc{pid: e.eventStream, recv: real.Producer(), e: e}
	e.Registry.lookup[es.pid.ID] = es
	drain := func() {
		for i := 0; len(es.q) > 0 && i < 64; i++ {
			es.step()
		}
	}
	subs := make([]*ZZRecProc, S)
	for i := range subs {
		subs[i] = &ZZRecProc{Pid: NewPID(e.address, "sub"+pidSeparator+string(rune('0'+i)))}
		e.Registry.lookup[subs[i].Pid.ID] = subs[i]
	}
	// subscription order: a rotation of 0..S-1, forwards or backwards
	rot, back := zzrt.Choose(S), zzrt.Choose(2) == 1
	for k := 0; k < S; k++ {
		i := (rot + k) % S
		if back {
			i = (rot + S - k) % S
		}
		e.Subscribe(subs[i].Pid)
		drain()
	}
	alive := make([]bool, S)
	nDead := 0
	for i := range alive {
		alive[i] = zzrt.Choose(2) == 0
		if !alive[i] {
			nDead++
			delete(e.Registry.lookup, subs[i].Pid.ID)
		}
	}
	if nDead > 0 && nDead < S {
		zzrt.Reach("some-subscribers-stopped-without-unsubscribing")
	}
	for n := 1; n <= 2; n++ {
		e.BroadcastEvent(zzEvt{n})
		drain()
	}
	for i := range subs {
		var got []int
		for _, g := range subs[i].Got {
			if ev, ok := g.Msg.(zzEvt); ok {
				got = append(got, ev.N)
			}
		}
		if alive[i] {
			zzrt.Assert(len(got) == 2 && got[0] == 1 && got[1] == 2, "C12:event-not-delivered-exactly-once-in-order-after-a-subscriber-died")
		} else {
			zzrt.Assert(len(got) == 0, "C12:event-delivered-to-a-stopped-subscriber")
		}
	}
}
