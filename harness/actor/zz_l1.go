package actor

// L1 "process unit" harness (sequential): a real process on a bare engine with
// a fake inbox. Quantifies over histories of user messages / poison pills /
// stops / batch splits, crash points (each user message carries a symbolic
// Crash flag), the restart budget and the middleware chain length.
// Param "prop" selects which property's oracle is evaluated: 4,5,6,7,13,12.

import (
	"github.com/anthdm/hollywood/zzrt"
	"github.com/anthdm/hollywood/zzshim/context"
)

type zzPill struct {
	ctx         context.Context
	graceful    bool
	usersBefore int
	pillsBefore int
	stopsBefore int
	afterDead   bool // target was already unregistered when the call was made
	crashedYet  int
}

type zzSent struct {
	payload int64
	sender  *PID
}

func ZZ_L1() {
	prop := zzrt.Param("prop")
	K := zzrt.Param("K")
	F := zzrt.Param("F")
	B := zzrt.Param("B")
	MW := zzrt.Param("MW")
	allowPills := zzrt.Param("pills")

	e, sink := zzBareEngine()
	mon := &zzMon{maxCrashes: F, prop: prop, crashInit: zzrt.Param("lifecrash") == 1, crashStop: zzrt.Param("lifecrash") == 1 && prop == 7}
	// options are built the way Engine.Spawn builds them: DefaultOpts, kind, then the public With* option functions
	opts := DefaultOpts(zzProducer(mon))
	opts.Kind = "k"
	maxRestarts := zzrt.Choose(B + 1) // the budget the user asked for; the oracles below are stated against it
	optFns := []OptFunc{WithID("i"), WithMaxRestarts(maxRestarts), WithRestartDelay(0), WithInboxSize(4)}
	if MW > 0 {
		mws := zzChain(zzrt.Choose(MW+1), mon)
		if len(mws) >= 2 {
			// a chain may be given in several options: they accumulate in order
			optFns = append(optFns, WithMiddleware(mws[:1]...), WithMiddleware(mws[1:]...))
		} else if len(mws) == 1 {
			optFns = append(optFns, WithMiddleware(mws...))
		}
	}
	for _, f := range optFns {
		f(&opts)
	}
	p := newProcess(e, opts)
	if MW > 0 {
		// another actor is configured afterwards with a chain of its own: that must not leak into this actor's chain
		other := DefaultOpts(zzProducer(&zzMon{}))
		decoy := func(next ReceiveFunc) ReceiveFunc {
			return func(c *Context) {
				if c.PID() == p.pid {
					zzrt.Fail("C13:delivery-ran-through-another-actor's-middleware")
				}
				next(c)
			}
		}
		WithMiddleware(decoy, decoy)(&other)
		_ = newProcess(e, other)
	}
	fake := &zzFakeInbox{}
	p.inbox = fake
	senderA := NewPID("local", "sender/a")

	var pills []*zzPill
	var sent []zzSent
	stops := 0

	if prop == 7 {
		context.OnCancel = func(c context.Context) {
			for _, r := range pills {
				if r.ctx == c {
					if r.afterDead {
						return
					}
					// done only after the target handled Stopped and was unregistered
					hs := len(mon.recs) > 0 && mon.recs[len(mon.recs)-1].kind == zzKStopped
					zzrt.Assert(hs, "C07:done-only-after-Stopped-handled")
					zzrt.Assert(e.Registry.get(p.pid) == nil, "C07:done-only-after-unregistered")
					if r.graceful && r.pillsBefore == 0 && mon.crashes == 0 {
						// graceful: everything sent before the Poison was handled
						n := 0
						for _, rec := range mon.recs {
							if rec.kind == zzKUser && rec.seq < r.usersBefore {
								n++
							}
						}
						zzrt.Assert(n >= r.usersBefore, "C07:poison-drains-earlier-messages-first")
					}
				}
			}
		}
	}

	if prop == 5 {
		// a message handed to Receive a second time is a violation at that very
		// moment (a redelivered failing message would otherwise only exhaust the
		// harness's crash budget)
		mon.onUser = func(seq int) {
			for _, rec := range mon.recs {
				if rec.kind != zzKUser || rec.seq != seq {
					continue
				}
				for _, c := range mon.recs {
					if c.kind == zzKUser && c.crashed {
						for _, r := range pills {
							if r.graceful && c.seq >= r.usersBefore {
								zzrt.Fail("C05:message-redelivered-or-reordered[panic-while-draining-behind-poison-pill]")
							}
						}
					}
				}
				if rec.crashed {
					zzrt.Fail("C05:failing-message-redelivered")
				}
				zzrt.Fail("C05:message-redelivered-or-reordered")
			}
		}
	}

	escaped := false
	guard := func(f func()) {
		defer func() {
			if r := recover(); r != nil {
				escaped = true
			}
		}()
		f()
	}

	guard(func() { e.SpawnProc(p) })
	if prop == 4 && !escaped {
		started := false
		for _, r := range mon.recs {
			if r.kind == zzKStarted && !r.crashed {
				started = true
			}
		}
		zzrt.Assert(started || e.Registry.get(p.pid) == nil, "C04:Spawn-returns-after-Started")
	}

	nk := 2
	if allowPills == 1 {
		nk = 4
	}
	for s := 0; s < K && !escaped; s++ {
		switch zzrt.Choose(nk) {
		case 0:
			var snd *PID
			if len(sent)%2 == 1 {
				snd = senderA
			}
			m := zzUser{Seq: len(sent), Payload: zzrt.NondetInt64("payload"), Crash: zzrt.NondetBool("crash")}
			sent = append(sent, zzSent{m.Payload, snd})
			mon.sentSenders = append(mon.sentSenders, snd)
			e.SendWithSender(p.pid, m, snd)
		case 1:
			if !fake.deliverable() {
				zzrt.Assume(false)
			}
			guard(func() { fake.deliver() })
		case 2, 3:
			r := &zzPill{graceful: true, usersBefore: len(sent), pillsBefore: len(pills), stopsBefore: stops,
				afterDead: e.Registry.get(p.pid) == nil, crashedYet: mon.crashes}
			pills = append(pills, r)
			if zzrt.Choose(2) == 0 {
				r.ctx = e.Poison(p.pid)
			} else {
				r.graceful = false
				stops++
				r.ctx = e.Stop(p.pid)
			}
		}
	}
	// drain: deliver as long as the real code keeps the inbox open
	for i := 0; fake.deliverable() && !escaped; i++ {
		guard(func() { fake.deliver() })
	}

	budgetHit := mon.crashes-mon.internal > maxRestarts
	// scenario: a user message sent after a graceful Poison call panicked, i.e. the
	// panic happened while the process drained the batch behind the pill
	drainCrash := false
	for _, rec := range mon.recs {
		if rec.kind == zzKUser && rec.crashed {
			for _, r := range pills {
				if r.graceful && rec.seq >= r.usersBefore {
					drainCrash = true
				}
			}
		}
	}
	alive := e.Registry.get(p.pid) != nil

	switch prop {
	case 5:
		zzrt.Assume(!budgetHit)
		zzrt.Assert(!escaped, "C05:panic-escapes-actor")
		if escaped {
			return
		}
		zzCheckDelivery(mon, sent, len(pills) == 0 && alive, drainCrash)
		n, ordOK := sink.countRestarted()
		zzrt.Assert(n == mon.crashes, "C05:one-ActorRestartedEvent-per-crash")
		zzrt.Assert(ordOK, "C05:restart-count-increments")
		zzrt.Assert(mon.incs == mon.crashes+1, "C05:fresh-receiver-per-crash")
	case 6:
		if budgetHit {
			zzrt.Reach("budget-exhausted")
			zzrt.Assert(!escaped, "C06:panic-escapes-on-max-restarts")
		}
		if escaped {
			return
		}
		n, _ := sink.countRestarted()
		zzrt.Assert(n <= maxRestarts, "C06:restarts-bounded-by-MaxRestarts")
		if budgetHit {
			zzrt.Assert(sink.count(3) == 1, "C06:one-MaxRestartsExceededEvent")
			zzrt.Assert(!alive, "C06:unregistered-after-max-restarts")
			before := sink.count(4)
			e.Send(p.pid, zzUser{Seq: 999})
			zzrt.Assert(sink.count(4) == before+1, "C06:later-send-dead-letters")
			// stopped cleanly: the terminated actor handles nothing after its final Stopped (the harness keeps
			// offering queued batches for as long as the real code keeps the inbox open)
			sawStop := false
			for _, r := range mon.recs {
				if r.inc != mon.incs {
					continue
				}
				if sawStop {
					zzrt.Fail("C06:terminated-actor-keeps-processing")
				}
				if r.kind == zzKStopped {
					sawStop = true
				}
			}
			zzrt.Assert(sawStop, "C06:terminated-actor-not-told-Stopped")
		} else {
			zzrt.Assert(sink.count(3) == 0, "C06:no-MaxRestartsExceededEvent-within-budget")
			if len(pills) == 0 {
				zzrt.Assert(alive, "C06:still-alive-within-budget")
			}
		}
	case 4:
		if budgetHit {
			zzrt.Reach("lifecycle-with-budget-exhausted")
		}
		if escaped {
			return
		}
		zzCheckLifecycle(mon, alive)
		if alive && len(pills) == 0 && !budgetHit {
			// messages sent to the PID since Spawn registered it are retained and delivered (the drain above has
			// offered every queued batch for as long as the inbox was open): none may be left behind, also after a
			// restart caused by a panic in Initialized / Started
			n := 0
			for _, r := range mon.recs {
				if r.kind == zzKUser {
					n++
				}
			}
			zzrt.Assert(n >= len(sent), "C04:message-sent-to-a-live-actor-never-delivered")
		}
	case 7:
		zzrt.Assume(!budgetHit)
		if escaped {
			return
		}
		zzrt.Assert(!mon.pillSeen, "C07:poison-pill-visible-to-Receive")
		for _, r := range pills {
			cc := r.ctx.(*context.CancelCtx)
			if !cc.IsDone() {
				switch {
				case r.pillsBefore > 0:
					zzrt.Fail("C07:stop-context-never-done[second-pill]")
				case drainCrash:
					zzrt.Fail("C07:stop-context-never-done[panic-while-draining-behind-poison-pill]")
				case mon.crashes > r.crashedYet:
					zzrt.Fail("C07:stop-context-never-done[crash-while-stopping]")
				default:
					zzrt.Fail("C07:stop-context-never-done")
				}
			}
		}
		if len(pills) > 0 {
			zzrt.Reach("pill")
			zzrt.Assert(!alive, "C07:unregistered-after-stop")
			before := sink.count(4)
			e.Send(p.pid, zzUser{Seq: 999})
			zzrt.Assert(sink.count(4) == before+1, "C07:later-send-dead-letters")
		}
	case 12:
		zzrt.Assume(!budgetHit)
		if escaped {
			return
		}
		okStarts := 0
		for _, r := range mon.recs {
			if r.kind == zzKStarted && !r.crashed {
				okStarts++
			}
		}
		zzrt.Assert(sink.count(1) == okStarts, "C12:ActorStartedEvent-per-start")
		n, _ := sink.countRestarted()
		zzrt.Assert(n == mon.crashes, "C12:ActorRestartedEvent-per-restart")
		if !alive {
			zzrt.Assert(sink.count(2) == 1, "C12:ActorStoppedEvent-per-stop")
		} else {
			zzrt.Assert(sink.count(2) == 0, "C12:no-ActorStoppedEvent-while-alive")
		}
	case 13:
		zzrt.Assume(!budgetHit || true)
	}
}

// zzCheckDelivery: user messages are handed to Receive at most once, in send
// order, with the payload and sender given at the send; when nothing stopped
// the actor, exactly once.
func zzCheckDelivery(mon *zzMon, sent []zzSent, exactlyOnce, drainCrash bool) {
	last := -1
	n := 0
	for _, r := range mon.recs {
		if r.kind != zzKUser {
			continue
		}
		n++
		if r.seq <= last {
			if drainCrash {
				zzrt.Fail("C05:message-redelivered-or-reordered[panic-while-draining-behind-poison-pill]")
			}
			zzrt.Fail("C05:message-redelivered-or-reordered")
		}
		last = r.seq
		if r.seq >= 0 && r.seq < len(sent) {
			zzrt.Assert(r.payload == sent[r.seq].payload, "C05:payload-preserved")
			zzrt.Assert(r.sender == sent[r.seq].sender, "C05:sender-preserved")
		}
	}
	if exactlyOnce {
		zzrt.Assert(n == len(sent), "C05:queued-messages-delivered-exactly-once")
	}
}

// zzCheckLifecycle: per incarnation Initialized, Started, user*, one final Stopped.
func zzCheckLifecycle(mon *zzMon, alive bool) {
	for inc := 1; inc <= mon.incs; inc++ {
		state := 0 // 0 nothing, 1 init, 2 started, 3 stopped
		stoppedN := 0
		for _, r := range mon.recs {
			if r.inc != inc {
				continue
			}
			if state == 3 {
				if r.kind == zzKStopped {
					zzrt.Fail("C04:Stopped-delivered-twice")
				}
				zzrt.Fail("C04:delivery-after-Stopped")
			}
			switch r.kind {
			case zzKInit:
				zzrt.Assert(state == 0, "C04:Initialized-first-and-once")
				state = 1
			case zzKStarted:
				zzrt.Assert(state == 1, "C04:Started-after-Initialized")
				state = 2
			case zzKUser:
				zzrt.Assert(state == 2, "C04:user-message-only-after-Started")
			case zzKStopped:
				stoppedN++
				zzrt.Assert(state >= 1, "C04:Stopped-before-Initialized")
				state = 3
			}
		}
		if inc < mon.incs || !alive {
			zzrt.Assert(stoppedN == 1, "C04:ended-incarnation-gets-exactly-one-Stopped")
		} else {
			zzrt.Assert(stoppedN == 0, "C04:live-incarnation-got-Stopped")
		}
	}
}
