package actor

// Inbox unit (threaded): the real Inbox, ring buffer and goscheduler with T
// sender goroutines, the Start call racing with them, and a recording
// Processer. Schedules are explored up to the preemption bound.
// prop 1: exactly-once / content / per-sender order; prop 2: Invoke never
// overlaps; prop 3: nothing accepted is left behind once everybody is idle.

import (
	"github.com/anthdm/hollywood/zzrt"
	"github.com/anthdm/hollywood/zzshim/atomic"
)

type zzInMsg struct {
	T, J    int
	Payload int64
}

type zzInRec struct {
	active  int
	overlap bool
	log     []Envelope
	batches int
}

func (r *zzInRec) Start()               {}
func (r *zzInRec) PID() *PID            { return nil }
func (r *zzInRec) Send(*PID, any, *PID) {}
func (r *zzInRec) Shutdown()            {}
func (r *zzInRec) Invoke(msgs []Envelope) {
	zzrt.RaceAccess(r, true) // the Processer's state is unsynchronised: consecutive Invokes must be ordered by happens-before
	r.active++
	if r.active != 1 {
		r.overlap = true
	}
	r.batches++
	for _, m := range msgs {
		r.log = append(r.log, m)
		zzrt.Yield() // the receiver takes time: others may run in the middle of a batch
	}
	if r.active != 1 {
		r.overlap = true
	}
	r.active--
}

func ZZ_Inbox() {
	prop := zzrt.Param("prop")
	T := zzrt.Param("T")
	M := zzrt.Param("M")
	S := zzrt.Param("S")
	in := NewInbox(zzrt.Choose(S) + 1)
	if zzrt.Choose(2) == 1 {
		// the scheduler's throughput is configuration: with 0 the worker reaches its "throughput exhausted" yield
		// after the first batch, with the default (300) never within these bounds
		in.scheduler = NewScheduler(0)
		zzrt.Reach("throughput-yield-configured")
	}
	rec := &zzInRec{}
	senders := []*PID{nil, NewPID("local", "s/1"), NewPID("local", "s/2")}
	payload := make([][]int64, T)
	for t := 0; t < T; t++ {
		payload[t] = make([]int64, M)
		for j := 0; j < M; j++ {
			payload[t][j] = zzrt.NondetInt64("payload")
		}
	}
	if prop == 2 || prop == 1 {
		// prop 1: "received in that order" presupposes that consecutive Invokes are ordered by happens-before
		zzrt.RaceDetect(true)
		zzrt.RaceWatch(true)
	}
	lateStart := zzrt.Choose(2) == 1
	if !lateStart {
		in.Start(rec)
	}
	for t := 0; t < T; t++ {
		t := t
		zzrt.Go(func() {
			for j := 0; j < M; j++ {
				in.Send(Envelope{Msg: zzInMsg{t, j, payload[t][j]}, Sender: senders[(t+j)%len(senders)]})
			}
		})
	}
	if lateStart {
		// Start races with the senders
		zzrt.Go(func() { in.Start(rec) })
		zzrt.Reach("start-races-with-senders")
	}
	zzrt.Quiesce() // every goroutine has finished or is blocked; nobody sends any more
	zzrt.RaceWatch(false)

	switch prop {
	case 2:
		zzrt.Assert(!rec.overlap, "C02:Invoke-overlaps")
	case 3:
		zzrt.Assert(len(rec.log) == T*M, "C03:accepted-message-left-unprocessed")
		zzrt.Assert(in.rb.Len() == 0, "C03:rests-with-non-empty-inbox")
		zzrt.Assert(atomic.LoadInt32(&in.procStatus) == idle, "C03:does-not-rest-idle")
	case 1:
		next := make([]int, T)
		for _, env := range rec.log {
			m, ok := env.Msg.(zzInMsg)
			zzrt.Assert(ok, "C01:foreign-message")
			if !ok {
				continue
			}
			if m.J < next[m.T] {
				zzrt.Fail("C01:delivered-twice-or-reordered")
			}
			zzrt.Assert(m.J == next[m.T], "C01:message-skipped-or-reordered")
			next[m.T] = m.J + 1
			zzrt.Assert(m.Payload == payload[m.T][m.J], "C01:payload-changed")
			zzrt.Assert(env.Sender == senders[(m.T+m.J)%len(senders)], "C01:sender-changed")
		}
		zzrt.Assert(len(rec.log) == T*M, "C01:not-exactly-once")
		if rec.batches > 1 {
			zzrt.Reach("several-batches")
		}
	}
}

// ZZ_Inbox_Backlog: a backlog longer than messageBatchSize (4096) built up before the inbox is started (or while
// the worker is busy): the worker must split it into batches and still hand every message to Invoke exactly once
// and in order, and come to rest idle over an empty ring. One schedule (no concurrency is needed to split).
func ZZ_Inbox_Backlog() {
	size := []int{1, 1000, 4096}[zzrt.Choose(3)] // 1000: not a power of two
	n := messageBatchSize + []int{1, 4}[zzrt.Choose(2)]
	in := NewInbox(size)
	rec := &zzInRec{}
	early := zzrt.Choose(2) == 1
	if early {
		// started first, but the processer is slow: the first message keeps the worker busy while the rest piles up
		in.Start(rec)
	}
	for i := 0; i < n; i++ {
		in.Send(Envelope{Msg: zzInMsg{0, i, int64(i)}})
	}
	if !early {
		in.Start(rec)
	}
	zzrt.Quiesce()
	zzrt.Assert(len(rec.log) == n, "C01:not-exactly-once[backlog-longer-than-a-batch]")
	for i, env := range rec.log {
		m, ok := env.Msg.(zzInMsg)
		if !ok || m.J != i {
			zzrt.Fail("C01:message-skipped-or-reordered[backlog-longer-than-a-batch]")
		}
	}
	zzrt.Assert(in.rb.Len() == 0, "C03:rests-with-non-empty-inbox")
	zzrt.Assert(atomic.LoadInt32(&in.procStatus) == idle, "C03:does-not-rest-idle")
	zzrt.Assert(!rec.overlap, "C02:Invoke-overlaps")
	if rec.batches >= 2 {
		zzrt.Reach("backlog-split-into-batches")
	}
}
