package actor

// Shared harness support for package actor: a bare engine whose event stream is
// a synchronous recording sink, a fake inbox that lets the harness cut the
// queue into batches, recording receivers and a trace monitor.

import (
	"errors"
	"github.com/anthdm/hollywood/zzrt"
	"github.com/anthdm/hollywood/zzshim/sync"
)

// ---- recording sink standing in for the event-stream actor ----

type zzSink struct {
	pid *PID
	evs []any
}

func (s *zzSink) Start()                            {}
func (s *zzSink) PID() *PID                         { return s.pid }
func (s *zzSink) Send(_ *PID, msg any, sender *PID) { s.evs = append(s.evs, msg) }
func (s *zzSink) Invoke([]Envelope)                 {}
func (s *zzSink) Shutdown()                         {}

func zzBareEngine() (*Engine, *zzSink) {
	e := &Engine{address: LocalLookupAddr}
	e.Registry = newRegistry(e)
	sink := &zzSink{pid: NewPID(e.address, "eventstream"+pidSeparator+"zz")}
	e.Registry.lookup[sink.pid.ID] = sink
	e.eventStream = sink.pid
	return e, sink
}

// ---- fake inbox: the harness decides the batch splits ----

type zzFakeInbox struct {
	q    []Envelope
	open bool
	proc Processer
}

func (f *zzFakeInbox) Send(m Envelope) { f.q = append(f.q, m) }
func (f *zzFakeInbox) Start(p Processer) {
	// mirrors Inbox.Start: only a stopped inbox is (re)opened
	if !f.open {
		f.open = true
		f.proc = p
	}
}
func (f *zzFakeInbox) Stop() error { f.open = false; return nil }

func (f *zzFakeInbox) deliverable() bool { return f.open && len(f.q) > 0 }

// deliver cuts a batch of arbitrary length off the queue and hands it to the
// real Invoke, as the inbox worker would.
func (f *zzFakeInbox) deliver() {
	n := zzrt.Choose(len(f.q)) + 1
	batch := make([]Envelope, n)
	copy(batch, f.q[:n])
	f.q = f.q[n:]
	f.proc.Invoke(batch)
}

// ---- messages, records, monitor ----

type zzUser struct {
	Seq     int
	Payload int64
	Crash   bool
}

const (
	zzKInit = iota
	zzKStarted
	zzKStopped
	zzKUser
)

type zzRec struct {
	inc     int
	kind    int
	seq     int
	payload int64
	sender  *PID
	crashed bool
}

type zzMon struct {
	recs        []zzRec
	incs        int
	crashes     int
	internal    int // crashes whose panic value was an *InternalError
	maxCrashes  int
	crashInit   bool // lifecycle handlers may crash (decided per incarnation)
	crashStop   bool // the Stopped handler may crash too (prop 7: every stop context still becomes done)
	mwN         int
	mwActive    []int
	mwSeen      []any
	sentSenders []*PID // by zzUser.Seq: the sender given at the send (L1 harness)
	prop        int
	pillSeen    bool
	onUser      func(seq int) // called before a user message is recorded
}

func (m *zzMon) crash(what string) {
	m.crashes++
	zzrt.Assume(m.crashes <= m.maxCrashes)
	if m.prop == 6 && zzrt.NondetBool("panicsWithInternalError") {
		// the exported panic value that "does not take the maximum restarts into account": such a restart is not
		// counted against the budget, and must not disturb the counting of the others either
		m.internal++
		zzrt.Reach("panic-with-InternalError")
		panic(&InternalError{From: "zz", Err: errors.New("zz-crash-" + what)})
	}
	panic("zz-crash-" + what)
}

type zzActor struct {
	mon *zzMon
	inc int
}

func (a *zzActor) Receive(c *Context) {
	m := a.mon
	if a.inc != m.incs {
		// a delivery that ends in a receiver other than the one the Producer returned last
		switch m.prop {
		case 13:
			zzrt.Fail("C13:middleware-chain-ends-in-a-stale-receiver")
		case 4:
			zzrt.Fail("C04:delivery-to-an-ended-incarnation")
		case 5:
			zzrt.Fail("C05:delivery-to-the-failed-incarnation-after-restart")
		}
	}
	if m.prop == 13 {
		// every delivery reaches the receiver through the whole chain, outermost first
		ok := len(m.mwActive) == m.mwN
		for i := range m.mwActive {
			if m.mwActive[i] != i {
				ok = false
			}
		}
		zzrt.Assert(ok, "C13:receiver-entered-through-full-chain-in-order")
		for i := range m.mwSeen {
			zzrt.Assert(zzSameMsg(m.mwSeen[i], c.Message()), "C13:middleware-sees-the-delivered-message")
		}
	}
	switch msg := c.Message().(type) {
	case Initialized:
		m.recs = append(m.recs, zzRec{inc: a.inc, kind: zzKInit})
		if m.crashInit && zzrt.NondetBool("crashInInitialized") {
			m.recs[len(m.recs)-1].crashed = true
			m.crash("init")
		}
	case Started:
		m.recs = append(m.recs, zzRec{inc: a.inc, kind: zzKStarted})
		if m.crashInit && zzrt.NondetBool("crashInStarted") {
			m.recs[len(m.recs)-1].crashed = true
			m.crash("started")
		}
	case Stopped:
		m.recs = append(m.recs, zzRec{inc: a.inc, kind: zzKStopped})
		if m.crashStop && zzrt.NondetBool("crashInStopped") {
			m.recs[len(m.recs)-1].crashed = true
			m.crash("stopped")
		}
	case zzUser:
		if m.onUser != nil {
			m.onUser(msg.Seq)
		}
		m.recs = append(m.recs, zzRec{inc: a.inc, kind: zzKUser, seq: msg.Seq, payload: msg.Payload, sender: c.Sender()})
		if m.prop == 13 && msg.Seq < len(m.sentSenders) {
			zzrt.Assert(c.Sender() == m.sentSenders[msg.Seq], "C13:receiver-sees-the-sender-of-another-delivery")
		}
		if msg.Crash {
			m.recs[len(m.recs)-1].crashed = true
			m.crash("user")
		}
	case poisonPill:
		m.pillSeen = true
	}
}

func zzSameMsg(a, b any) bool {
	switch x := a.(type) {
	case Initialized:
		_, ok := b.(Initialized)
		return ok
	case Started:
		_, ok := b.(Started)
		return ok
	case Stopped:
		_, ok := b.(Stopped)
		return ok
	case zzUser:
		y, ok := b.(zzUser)
		return ok && x.Seq == y.Seq && x.Payload == y.Payload
	}
	return false
}

func zzProducer(m *zzMon) Producer {
	return func() Receiver {
		m.incs++
		return &zzActor{mon: m, inc: m.incs}
	}
}

// zzChain builds n recording middlewares.
func zzChain(n int, m *zzMon) []MiddlewareFunc {
	m.mwN = n
	mws := []MiddlewareFunc{}
	for i := 0; i < n; i++ {
		i := i
		mws = append(mws, func(next ReceiveFunc) ReceiveFunc {
			return func(c *Context) {
				if m.prop == 13 {
					zzrt.Assert(len(m.mwActive) == i, "C13:middleware-order-outermost-first")
				}
				m.mwActive = append(m.mwActive, i)
				m.mwSeen = append(m.mwSeen, c.Message())
				if u, ok := c.Message().(zzUser); ok && m.prop == 13 && u.Seq < len(m.sentSenders) {
					// inside the chain the Context shows the sender of this delivery (nil when it was sent without one)
					zzrt.Assert(c.Sender() == m.sentSenders[u.Seq], "C13:middleware-sees-the-sender-of-another-delivery")
				}
				defer func() {
					m.mwActive = m.mwActive[:len(m.mwActive)-1]
					m.mwSeen = m.mwSeen[:len(m.mwSeen)-1]
				}()
				next(c)
			}
		})
	}
	return mws
}

// ---- sink queries ----

func (s *zzSink) countRestarted() (n int, ordinalsOK bool) {
	ordinalsOK = true
	for _, ev := range s.evs {
		if r, ok := ev.(ActorRestartedEvent); ok {
			n++
			if r.Restarts != int32(n) {
				ordinalsOK = false
			}
		}
	}
	return
}

func (s *zzSink) count(kind int) int {
	n := 0
	for _, ev := range s.evs {
		switch ev.(type) {
		case ActorInitializedEvent:
			if kind == 0 {
				n++
			}
		case ActorStartedEvent:
			if kind == 1 {
				n++
			}
		case ActorStoppedEvent:
			if kind == 2 {
				n++
			}
		case ActorMaxRestartsExceededEvent:
			if kind == 3 {
				n++
			}
		case DeadLetterEvent:
			if kind == 4 {
				n++
			}
		case ActorDuplicateIdEvent:
			if kind == 5 {
				n++
			}
		}
	}
	return n
}

// ---- exported helpers for harnesses in packages remote and cluster ----

// ZZGot is one delivery recorded by a ZZRecProc.
type ZZGot struct {
	To     *PID
	Msg    any
	Sender *PID
}

// ZZRecProc is a registered process that records what is sent to it.
type ZZRecProc struct {
	Pid *PID
	Got []ZZGot
}

func (r *ZZRecProc) Start()            {}
func (r *ZZRecProc) PID() *PID         { return r.Pid }
func (r *ZZRecProc) Invoke([]Envelope) {}
func (r *ZZRecProc) Shutdown()         {}
func (r *ZZRecProc) Send(to *PID, msg any, sender *PID) {
	r.Got = append(r.Got, ZZGot{to, msg, sender})
}

// ZZEngine is a bare engine (registry + address, no goroutines) whose event
// stream is a synchronous recording sink.
type ZZEngine struct {
	E    *Engine
	sink *zzSink
}

func ZZNewEngine(addr string) *ZZEngine {
	e, sink := zzBareEngine()
	e.address = addr
	sink.pid.Address = addr
	return &ZZEngine{E: e, sink: sink}
}

// Register adds a recording process under the given id.
func (z *ZZEngine) Register(id string) *ZZRecProc {
	r := &ZZRecProc{Pid: NewPID(z.E.address, id)}
	z.E.Registry.lookup[id] = r
	return r
}

// Events returns everything broadcast on the engine's event stream so far.
func (z *ZZEngine) Events() []any { return z.sink.evs }

// SetRemote installs a Remoter on the bare engine.
func (z *ZZEngine) SetRemote(r Remoter) { z.E.remote = r }

// ZZRecRemote is a Remoter that records what the engine hands to it.
type ZZRecRemote struct {
	Addr string
	Sent []ZZGot
}

func (r *ZZRecRemote) Address() string       { return r.Addr }
func (r *ZZRecRemote) Start(*Engine) error   { return nil }
func (r *ZZRecRemote) Stop() *sync.WaitGroup { return &sync.WaitGroup{} }
func (r *ZZRecRemote) Send(to *PID, msg any, sender *PID) {
	r.Sent = append(r.Sent, ZZGot{to, msg, sender})
}

// WithRecRemote installs a recording remote and returns it.
func (z *ZZEngine) WithRecRemote() *ZZRecRemote {
	r := &ZZRecRemote{Addr: z.E.address}
	z.E.remote = r
	return r
}

// ZZContext builds the Context an actor registered as pid on e would be handed
// for msg from sender.
func ZZContext(e *Engine, pid *PID, msg any, sender *PID) *Context {
	c := newContext(nil, e, pid)
	c.message = msg
	c.sender = sender
	return c
}

// RegisterProc registers an arbitrary Processer under id.
func (z *ZZEngine) RegisterProc(id string, p Processer) { z.E.Registry.lookup[id] = p }

// Registered reports whether id is registered on the engine.
func (z *ZZEngine) Registered(id string) bool { _, ok := z.E.Registry.lookup[id]; return ok }
