package actor

// C11 harness (threaded): R requests to one responder on a bare engine. The
// response ids come from the rand model (any value in range, chosen by the
// solver), replies are sent 0..2 times per request by a replier goroutine,
// a timeout timer can fire only once the harness clock has reached its deadline:
// the clock moves when a requester dawdles between Request and Result or the
// replier dawdles before a reply (time.Sleep of twice the timeout, SLEEP bit 1
// and 2), or when every goroutine is blocked.

import (
	"github.com/anthdm/hollywood/zzrt"
	"github.com/anthdm/hollywood/zzshim/context"
	"github.com/anthdm/hollywood/zzshim/time"
)

type zzReq struct{ I int }
type zzRep struct{ I, N int }

type zzResponder struct {
	pid  *PID
	reqs []ZZGot
}

func (r *zzResponder) Start()            {}
func (r *zzResponder) PID() *PID         { return r.pid }
func (r *zzResponder) Invoke([]Envelope) {}
func (r *zzResponder) Shutdown()         {}
func (r *zzResponder) Send(to *PID, msg any, sender *PID) {
	r.reqs = append(r.reqs, ZZGot{to, msg, sender})
}

func ZZ_C11() {
	R := zzrt.Param("R")
	e, sink := zzBareEngine()
	rp := &zzResponder{pid: NewPID(e.address, "responder/x")}
	e.Registry.lookup[rp.pid.ID] = rp

	resps := make([]*Response, R)
	if zzrt.Param("CTXREQ") == 1 {
		// the requests are made by an actor through its Context (Context.Request); the actor was spawned
		// WithContext, and that application context may be cancelled while the requests are outstanding (an
		// actor that asks somebody during shutdown): the waiting is still governed by the request's own timeout
		actx, acancel := context.WithCancel(context.Background())
		c := newContext(actx, e, NewPID(e.address, "asker/x"))
		for i := 0; i < R; i++ {
			resps[i] = c.Request(rp.pid, zzReq{i}, time.Second)
		}
		if zzrt.Choose(2) == 1 {
			acancel()
			zzrt.Reach("asking-actor's-context-cancelled")
		}
	} else {
		for i := 0; i < R; i++ {
			resps[i] = e.Request(rp.pid, zzReq{i}, time.Second)
		}
	}
	zzrt.Assert(len(rp.reqs) == R, "C11:request-not-delivered")
	collide := false
	for i := 0; i < R; i++ {
		for j := 0; j < i; j++ {
			if resps[i].pid.ID == resps[j].pid.ID {
				collide = true
			}
		}
	}
	if collide {
		zzrt.Reach("response-id-collision")
	}

	nrep := make([]int, R)
	for i := range nrep {
		nrep[i] = zzrt.Choose(3)
	}
	done := make([]bool, R)
	vals := make([]any, R)
	errs := make([]error, R)
	lateLost := false
	earlyLost := false
	entered := make([]bool, R)
	SLEEP := zzrt.Param("SLEEP")
	t0 := make([]int64, R)
	t1 := make([]int64, R)
	waiting := make([]bool, R) // a reply was handed over, start to end, before Result was entered
	for i := 0; i < R; i++ {
		i := i
		zzrt.Go(func() {
			if SLEEP&1 != 0 && zzrt.Choose(2) == 1 {
				zzrt.Reach("requester-dawdles-past-the-timeout-before-Result")
				time.Sleep(2 * time.Second)
			}
			entered[i] = true
			t0[i] = zzrt.ClockNow()
			vals[i], errs[i] = resps[i].Result()
			t1[i] = zzrt.ClockNow()
			done[i] = true
		})
	}
	zzrt.Go(func() {
		for i := 0; i < R; i++ {
			if SLEEP&2 != 0 && nrep[i] > 0 && zzrt.Choose(2) == 1 {
				time.Sleep(2 * time.Second)
			}
			var to *PID
			for _, g := range rp.reqs {
				if q, ok := g.Msg.(zzReq); ok && q.I == i {
					to = g.Sender
				}
			}
			for n := 0; n < nrep[i]; n++ {
				late := done[i]
				if collide {
					late = false
				}
				early := !entered[i]
				e.Send(to, zzRep{i, n})
				if early && !entered[i] && !collide {
					// the reply was sent, start to end, before the requester even entered Result(): no timeout can
					// have passed, so it must be waiting for the requester, not be reported undeliverable
					zzrt.Reach("reply-before-Result-entered")
					waiting[i] = true
					for _, ev := range sink.evs {
						if d, ok := ev.(DeadLetterEvent); ok {
							if m, ok := d.Message.(zzRep); ok && m.I == i && m.N == n {
								earlyLost = true
							}
						}
					}
				}
				if late {
					zzrt.Reach("late-reply")
					found := false
					for _, ev := range sink.evs {
						if d, ok := ev.(DeadLetterEvent); ok {
							if m, ok := d.Message.(zzRep); ok && m.I == i && m.N == n {
								found = true
							}
						}
					}
					if !found {
						lateLost = true
					}
				}
			}
		}
	})
	zzrt.Quiesce()

	for i := 0; i < R; i++ {
		zzrt.Assert(done[i], "C11:Result-never-returns")
		if !done[i] {
			continue
		}
		if errs[i] == nil {
			m, ok := vals[i].(zzRep)
			if !ok || m.I != i {
				if collide {
					zzrt.Fail("C11:result-is-the-reply-to-another-request[response-id-collision]")
				}
				zzrt.Fail("C11:result-is-the-reply-to-another-request")
			}
			zzrt.Reach("replied")
		} else {
			zzrt.Reach("timed-out")
			zzrt.Assert(vals[i] == nil, "C11:value-and-error")
			// all requests were made at clock 0 with a timeout of one second
			zzrt.Assert(t1[i] >= int64(time.Second), "C11:timeout-error-before-the-timeout-has-passed")
			if waiting[i] && t1[i] == t0[i] {
				// the reply was there when Result was entered and no time at all passed inside Result
				zzrt.Fail("C11:reply-that-arrived-before-Result-was-entered-is-not-returned")
			}
		}
		if waiting[i] && errs[i] == nil && t0[i] > 0 {
			zzrt.Reach("reply-collected-after-the-timeout-had-passed-since-Request")
		}
		if nrep[i] == 0 && !collide {
			zzrt.Assert(errs[i] != nil, "C11:result-without-reply")
		}
		zzrt.Assert(e.Registry.get(resps[i].pid) == nil, "C11:response-pid-still-registered-after-Result")
	}
	// a follow-up request issued after all of that (sequentially): it must get its own reply, whatever surplus
	// or late replies the earlier requests left behind
	fr := e.Request(rp.pid, zzReq{R}, time.Second)
	var fto *PID
	for _, g := range rp.reqs {
		if q, ok := g.Msg.(zzReq); ok && q.I == R {
			fto = g.Sender
		}
	}
	zzrt.Assert(fto != nil, "C11:request-not-delivered")
	e.Send(fto, zzRep{R, 0}) // replied at once, before Result is entered (keeps this phase nearly sequential)
	fv, ferr := fr.Result()
	if ferr == nil {
		m, ok := fv.(zzRep)
		if !ok || m.I != R {
			zzrt.Fail("C11:result-is-the-reply-to-another-request")
		}
		zzrt.Reach("follow-up-replied")
	}
	zzrt.Quiesce()
	zzrt.Assert(e.Registry.get(fr.pid) == nil, "C11:response-pid-still-registered-after-Result")
	zzrt.Assert(!lateLost, "C11:late-reply-not-dead-lettered")
	zzrt.Assert(!earlyLost, "C11:reply-sent-before-Result-was-entered-is-dead-lettered")
}

// ZZ_C11_Conc: R goroutines issue their requests at the same time (the history
// harness above issues them one after the other). Every request must get a
// response PID of its own that is registered, and the engine's bookkeeping for
// it must be free of data races (happens-before detector on the repository's
// plain and atomic accesses); each reply then reaches its own requester.
func ZZ_C11_Conc() {
	R := zzrt.Param("R")
	e, _ := zzBareEngine()
	rp := &zzResponder{pid: NewPID(e.address, "responder/x")}
	e.Registry.lookup[rp.pid.ID] = rp
	resps := make([]*Response, R)
	zzrt.RaceDetect(true)
	zzrt.RaceWatch(true)
	for i := 0; i < R; i++ {
		i := i
		zzrt.Go(func() { resps[i] = e.Request(rp.pid, zzReq{i}, time.Second) })
	}
	zzrt.Quiesce()
	zzrt.RaceWatch(false)
	zzrt.Assert(len(rp.reqs) == R, "C11:request-not-delivered")
	for i := 0; i < R; i++ {
		zzrt.Assert(resps[i] != nil && e.Registry.get(resps[i].pid) == Processer(resps[i]), "C11:response-pid-not-registered-for-its-request")
		for j := 0; j < i; j++ {
			if resps[i] != nil && resps[j] != nil && resps[i].pid.ID == resps[j].pid.ID {
				zzrt.Fail("C11:two-outstanding-requests-share-a-response-pid")
			}
		}
	}
	// every reply goes to the requester it answers
	for _, g := range rp.reqs {
		q, ok := g.Msg.(zzReq)
		zzrt.Assert(ok && g.Sender != nil, "C11:request-without-sender")
		if ok && g.Sender != nil {
			e.Send(g.Sender, zzRep{q.I, 0})
		}
	}
	for i := 0; i < R; i++ {
		if resps[i] == nil {
			continue
		}
		v, err := resps[i].Result()
		if err == nil {
			m, ok := v.(zzRep)
			if !ok || m.I != i {
				zzrt.Fail("C11:result-is-the-reply-to-another-request")
			}
			zzrt.Reach("concurrent-request-replied")
		}
	}
}
