package ringbuffer

// C14 harnesses: one-step induction over an arbitrary valid ring-buffer state.

import "github.com/anthdm/hollywood/zzrt"

// zzState builds an arbitrary RingBuffer[int64] satisfying the representation
// invariant, with capacity chosen in [1, M].
func zzState() (*RingBuffer[int64], int64) {
	m := int64(zzrt.Choose(zzrt.Param("M"))) + 1
	items := make([]int64, m)
	for i := range items {
		items[i] = zzrt.NondetInt64("item")
	}
	var h, l int64
	if zzrt.Param("SYM") == 1 {
		// head and length symbolic: the solver picks the geometry
		h = zzrt.NondetInt64("head")
		l = zzrt.NondetInt64("len")
		zzrt.Assume(0 <= h && h < m)
		zzrt.Assume(0 <= l && l < m)
	} else {
		// geometry enumerated (reaches larger capacities); values stay symbolic
		h = int64(zzrt.Choose(int(m)))
		l = int64(zzrt.Choose(int(m)))
	}
	t := (h + l) % m
	rb := &RingBuffer[int64]{len: l, content: &buffer[int64]{items: items, head: h, tail: t, mod: m}}
	return rb, m
}

// zzAlpha is the abstraction function: the queue contents, oldest first.
func zzAlpha(rb *RingBuffer[int64]) []int64 {
	c := rb.content
	out := make([]int64, 0, rb.len)
	for i := int64(0); i < rb.len; i++ {
		out = append(out, c.items[(c.head+1+i)%c.mod])
	}
	return out
}

func zzInv(rb *RingBuffer[int64]) bool {
	c := rb.content
	if c == nil || c.mod < 1 || int64(len(c.items)) != c.mod {
		return false
	}
	if c.head < 0 || c.head >= c.mod || c.tail < 0 || c.tail >= c.mod {
		return false
	}
	if rb.len < 0 || rb.len >= c.mod {
		return false
	}
	return c.tail == (c.head+rb.len)%c.mod
}

func ZZ_C14_PushStep() {
	rb, m := zzState()
	pre := zzAlpha(rb)
	h0 := rb.content.head
	item := zzrt.NondetInt64("pushed")
	rb.Push(item)
	post := zzAlpha(rb)
	zzrt.Assert(zzInv(rb), "push-inv-preserved")
	zzrt.Assert(len(post) == len(pre)+1, "push-len+1")
	zzrt.Assert(rb.Len() == int64(len(pre))+1, "push-Len")
	for i := range pre {
		if i < len(post) {
			zzrt.Assert(post[i] == pre[i], "push-keeps-order")
		}
	}
	if len(post) > 0 {
		zzrt.Assert(post[len(post)-1] == item, "push-appends-item")
	}
	if rb.content.mod != m {
		zzrt.Reach("grow")
		if h0 != 0 {
			zzrt.Reach("grow-while-wrapped")
		}
	}
}

func ZZ_C14_PopStep() {
	rb, _ := zzState()
	pre := zzAlpha(rb)
	v, ok := rb.Pop()
	post := zzAlpha(rb)
	zzrt.Assert(zzInv(rb), "pop-inv-preserved")
	zzrt.Assert(ok == (len(pre) > 0), "pop-false-iff-empty")
	if len(pre) > 0 {
		zzrt.Assert(v == pre[0], "pop-returns-oldest")
		zzrt.Assert(len(post) == len(pre)-1, "pop-len-1")
		for i := range post {
			zzrt.Assert(post[i] == pre[i+1], "pop-keeps-order")
		}
	} else {
		zzrt.Assert(v == 0, "pop-empty-zero")
		zzrt.Assert(len(post) == 0, "pop-empty-stays-empty")
	}
	zzrt.Assert(rb.Len() == int64(len(post)) && rb.Len() >= 0, "pop-Len")
}

func ZZ_C14_PopNStep() {
	rb, m := zzState()
	pre := zzAlpha(rb)
	h0 := rb.content.head
	n := zzrt.NondetInt64("n")
	zzrt.Assume(n >= 0 && n <= 2*m+2)
	out, ok := rb.PopN(n)
	post := zzAlpha(rb)
	zzrt.Assert(zzInv(rb), "popn-inv-preserved")
	zzrt.Assert(ok == (len(pre) > 0), "popn-false-iff-empty")
	k := int64(0)
	if ok {
		k = n
		if int64(len(pre)) < k {
			k = int64(len(pre))
		}
		zzrt.Assert(int64(len(out)) == k, "popn-count-is-min")
		for i := range out {
			if i < len(pre) {
				zzrt.Assert(out[i] == pre[i], "popn-prefix-in-order")
			}
		}
	} else {
		zzrt.Assert(out == nil, "popn-empty-nil")
	}
	zzrt.Assert(int64(len(post)) == int64(len(pre))-k, "popn-rest-len")
	for i := range post {
		if int64(i)+k < int64(len(pre)) {
			zzrt.Assert(post[i] == pre[int64(i)+k], "popn-rest-order")
		}
	}
	zzrt.Assert(rb.Len() == int64(len(post)) && rb.Len() >= 0, "popn-Len")
	if k > 0 && h0+k >= m {
		zzrt.Reach("popn-across-wrap")
	}
}

// ZZ_C14_New: the base case - New establishes the invariant with an empty queue.
func ZZ_C14_New() {
	size := int64(zzrt.Choose(zzrt.Param("M"))) + 1
	rb := New[int64](size)
	zzrt.Assert(zzInv(rb), "new-inv")
	zzrt.Assert(rb.Len() == 0 && len(zzAlpha(rb)) == 0, "new-empty")
	_, ok := rb.Pop()
	zzrt.Assert(!ok, "new-pop-false")
}

// ---- bounded operation sequences from New (reachability of the invariant, slice model) ----

// ZZ_C14_Seq runs K operations chosen by the executor (Push of a symbolic
// value / Pop / PopN(n) / Len) from New(size) against a slice model.
func ZZ_C14_Seq() {
	size := int64(zzrt.Choose(zzrt.Param("S"))) + 1
	K := zzrt.Param("K")
	rb := New[int64](size)
	var model []int64
	var held, want [][]int64
	for s := 0; s < K; s++ {
		switch zzrt.Choose(4) {
		case 0:
			v := zzrt.NondetInt64("v")
			rb.Push(v)
			model = append(model, v)
		case 1:
			v, ok := rb.Pop()
			zzrt.Assert(ok == (len(model) > 0), "seq-pop-false-iff-empty")
			if len(model) > 0 {
				zzrt.Assert(v == model[0], "seq-pop-returns-oldest")
				model = model[1:]
			}
		case 2:
			n := int64(zzrt.Choose(4))
			out, ok := rb.PopN(n)
			zzrt.Assert(ok == (len(model) > 0), "seq-popn-false-iff-empty")
			if ok {
				k := n
				if int64(len(model)) < k {
					k = int64(len(model))
				}
				zzrt.Assert(int64(len(out)) == k, "seq-popn-count-is-min")
				for i := range out {
					if i < len(model) {
						zzrt.Assert(out[i] == model[i], "seq-popn-prefix-in-order")
					}
				}
				// the consumer keeps the batch while the queue is used further (the inbox invokes the actor with
				// it while senders push): what came out must stay what came out
				held = append(held, out)
				want = append(want, append([]int64(nil), model[:k]...))
				model = model[k:]
			}
		case 3:
		}
		for b := range held {
			for i := range held[b] {
				if i < len(want[b]) && held[b][i] != want[b][i] {
					zzrt.Fail("seq-batch-returned-by-PopN-changed-by-a-later-operation")
				}
			}
		}
		zzrt.Assert(rb.Len() == int64(len(model)), "seq-Len-is-pushes-minus-pops")
		zzrt.Assert(zzInv(rb), "seq-inv")
		if rb.content.mod != size {
			zzrt.Reach("seq-grew")
		}
	}
}

// ---- concurrent clause: linearizability of Push/Pop/PopN/Len under every interleaving ----

type zzOp struct {
	kind     int // 0 push 1 pop 2 popn 3 len
	arg      int64
	ok       bool
	ret      []int64
	n        int64
	inv, res int
}

// zzLin searches a linearisation: a total order of ops, consistent with
// real-time precedence (a.res < b.inv => a before b), under which a FIFO queue
// produces exactly the recorded results.
func zzLin(ops []*zzOp, done []bool, q []int64, left int) bool {
	if left == 0 {
		return true
	}
	for i, o := range ops {
		if done[i] {
			continue
		}
		// minimal: no undone op finished before o was invoked
		minimal := true
		for j, p := range ops {
			if j != i && !done[j] && p.res < o.inv {
				minimal = false
			}
		}
		if !minimal {
			continue
		}
		var nq []int64
		okStep := false
		switch o.kind {
		case 0:
			nq = append(append(nq, q...), o.arg)
			okStep = true
		case 1:
			if len(q) == 0 {
				okStep = !o.ok
				nq = q
			} else if o.ok && len(o.ret) == 1 && o.ret[0] == q[0] {
				okStep = true
				nq = q[1:]
			}
		case 2:
			if len(q) == 0 {
				okStep = !o.ok
				nq = q
			} else if o.ok {
				k := o.arg
				if int64(len(q)) < k {
					k = int64(len(q))
				}
				if int64(len(o.ret)) == k {
					okStep = true
					for x := int64(0); x < k; x++ {
						if o.ret[x] != q[x] {
							okStep = false
						}
					}
					nq = q[k:]
				}
			}
		case 3:
			okStep = o.n == int64(len(q))
			nq = q
		}
		if !okStep {
			continue
		}
		done[i] = true
		if zzLin(ops, done, nq, left-1) {
			return true
		}
		done[i] = false
	}
	return false
}

// ZZ_C14_Conc: T goroutines x M operations on one ring of initial size 1..S.
// Pushed values are distinct constants (the ring never inspects elements; the
// one-step harnesses quantify over element values), PopN's n is 0..2.
func ZZ_C14_Conc() {
	T := zzrt.Param("T")
	M := zzrt.Param("M")
	size := int64(zzrt.Choose(zzrt.Param("S"))) + 1
	rb := New[int64](size)
	pre := zzrt.Choose(3) // elements already queued
	var q0 []int64
	for i := 0; i < pre; i++ {
		rb.Push(int64(900 + i))
		q0 = append(q0, int64(900+i))
	}
	zzrt.RaceDetect(true)
	zzrt.RaceWatch(true)
	clock := 0
	var ops []*zzOp
	for t := 0; t < T; t++ {
		t := t
		mine := make([]*zzOp, M)
		for j := 0; j < M; j++ {
			o := &zzOp{kind: zzrt.Choose(4)}
			switch o.kind {
			case 0:
				o.arg = int64(100*(t+1) + j)
			case 2:
				o.arg = int64(zzrt.Choose(3))
			}
			mine[j] = o
			ops = append(ops, o)
		}
		zzrt.Go(func() {
			for _, o := range mine {
				clock++
				o.inv = clock
				switch o.kind {
				case 0:
					rb.Push(o.arg)
				case 1:
					v, ok := rb.Pop()
					o.ok = ok
					if ok {
						o.ret = []int64{v}
					}
				case 2:
					o.ret, o.ok = rb.PopN(o.arg)
				case 3:
					o.n = rb.Len()
				}
				clock++
				o.res = clock
			}
		})
	}
	zzrt.Quiesce()
	zzrt.RaceWatch(false)
	zzrt.Assert(zzLin(ops, make([]bool, len(ops)), q0, len(ops)), "C14:concurrent-history-not-linearizable")
	zzrt.Assert(zzInv(rb), "C14:invariant-broken-by-concurrent-callers")
	zzrt.Assert(rb.Len() >= 0, "C14:Len-negative")
	if rb.content.mod != size {
		zzrt.Reach("conc-grew")
	}
}
