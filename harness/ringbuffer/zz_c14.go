package ringbuffer

// C14 harnesses: one-step induction over an arbitrary valid ring-buffer state.

import "github.com/anthdm/hollywood/zzrt"

// zzState builds an arbitrary RingBuffer[int64] satisfying the representation
// invariant, with capacity chosen in [1, M].
func zzState() (*RingBuffer[int64], int64) {
	m := int64(zzrt.Choose(zzrt.Param("M"))) + 1
	items := make([]int64, m)
	for i := range items {
		items[i] = zzrt.NondetInt64("item")
	}
	var h, l int64
	if zzrt.Param("SYM") == 1 {
		// head and length symbolic: the solver picks the geometry
		h = zzrt.NondetInt64("head")
		l = zzrt.NondetInt64("len")
		zzrt.Assume(0 <= h && h < m)
		zzrt.Assume(0 <= l && l < m)
	} else {
		// geometry enumerated (reaches larger capacities); values stay symbolic
		h = int64(zzrt.Choose(int(m)))
		l = int64(zzrt.Choose(int(m)))
	}
	t := (h + l) % m
	rb := &RingBuffer[int64]{len: l, content: &buffer[int64]{items: items, head: h, tail: t, mod: m}}
	return rb, m
}

// zzAlpha is the abstraction function: the queue contents, oldest first.
func zzAlpha(rb *RingBuffer[int64]) []int64 {
	c := rb.content
	out := make([]int64, 0, rb.len)
	for i := int64(0); i < rb.len; i++ {
		out = append(out, c.items[(c.head+1+i)%c.mod])
	}
	return out
}

func zzInv(rb *RingBuffer[int64]) bool {
	c := rb.content
	if c == nil || c.mod < 1 || int64(len(c.items)) != c.mod {
		return false
	}
	if c.head < 0 || c.head >= c.mod || c.tail < 0 || c.tail >= c.mod {
		return false
	}
	if rb.len < 0 || rb.len >= c.mod {
		return false
	}
	return c.tail == (c.head+rb.len)%c.mod
}

func ZZ_C14_PushStep() {
	rb, m := zzState()
	pre := zzAlpha(rb)
	h0 := rb.content.head
	item := zzrt.NondetInt64("pushed")
	rb.Push(item)
	post := zzAlpha(rb)
	zzrt.Assert(zzInv(rb), "push-inv-preserved")
	zzrt.Assert(len(post) == len(pre)+1, "push-len+1")
	zzrt.Assert(rb.Len() == int64(len(pre))+1, "push-Len")
	for i := range pre {
		if i < len(post) {
			zzrt.Assert(post[i] == pre[i], "push-keeps-order")
		}
	}
	if len(post) > 0 {
		zzrt.Assert(post[len(post)-1] == item, "push-appends-item")
	}
	if rb.content.mod != m {
		zzrt.Reach("grow")
		if h0 != 0 {
			zzrt.Reach("grow-while-wrapped")
		}
	}
}

func ZZ_C14_PopStep() {
	rb, _ := zzState()
	pre := zzAlpha(rb)
	v, ok := rb.Pop()
	post := zzAlpha(rb)
	zzrt.Assert(zzInv(rb), "pop-inv-preserved")
	zzrt.Assert(ok == (len(pre) > 0), "pop-false-iff-empty")
	if len(pre) > 0 {
		zzrt.Assert(v == pre[0], "pop-returns-oldest")
		zzrt.Assert(len(post) == len(pre)-1, "pop-len-1")
		for i := range post {
			zzrt.Assert(post[i] == pre[i+1], "pop-keeps-order")
		}
	} else {
		zzrt.Assert(v == 0, "pop-empty-zero")
		zzrt.Assert(len(post) == 0, "pop-empty-stays-empty")
	}
	zzrt.Assert(rb.Len() == int64(len(post)) && rb.Len() >= 0, "pop-Len")
}

func ZZ_C14_PopNStep() {
	rb, m := zzState()
	pre := zzAlpha(rb)
	h0 := rb.content.head
	n := zzrt.NondetInt64("n")
	zzrt.Assume(n >= 0 && n <= 2*m+2)
	out, ok := rb.PopN(n)
	post := zzAlpha(rb)
	zzrt.Assert(zzInv(rb), "popn-inv-preserved")
	zzrt.Assert(ok == (len(pre) > 0), "popn-false-iff-empty")
	k := int64(0)
	if ok {
		k = n
		if int64(len(pre)) < k {
			k = int64(len(pre))
		}
		zzrt.Assert(int64(len(out)) == k, "popn-count-is-min")
		for i := range out {
			if i < len(pre) {
				zzrt.Assert(out[i] == pre[i], "popn-prefix-in-order")
			}
		}
	} else {
		zzrt.Assert(out == nil, "popn-empty-nil")
	}
	zzrt.Assert(int64(len(post)) == int64(len(pre))-k, "popn-rest-len")
	for i := range post {
		if int64(i)+k < int64(len(pre)) {
			zzrt.Assert(post[i] == pre[int64(i)+k], "popn-rest-order")
		}
	}
	zzrt.Assert(rb.Len() == int64(len(post)) && rb.Len() >= 0, "popn-Len")
	if k > 0 && h0+k >= m {
		zzrt.Reach("popn-across-wrap")
	}
}

// ZZ_C14_New: the base case - New establishes the invariant with an empty queue.
func ZZ_C14_New() {
	size := int64(zzrt.Choose(zzrt.Param("M"))) + 1
	rb := New[int64](size)
	zzrt.Assert(zzInv(rb), "new-inv")
	zzrt.Assert(rb.Len() == 0 && len(zzAlpha(rb)) == 0, "new-empty")
	_, ok := rb.Pop()
	zzrt.Assert(!ok, "new-pop-false")
}
