package remote

// C17 harness (reduced scope, contract transport): two nodes A and B, each a
// bare engine with a real Remote (real stream router actor, real stream
// writers with their inboxes and goroutines, real stream reader, real wire
// codec). TCP, TLS and the DRPC library are replaced by the models under
// zzshim/{net,tls,drpcconn,drpcmux,drpcserver}: a dial succeeds exactly when
// the peer is serving and not taken down; frames sent on an established
// connection arrive once and in order when the harness hands them to the
// serving side. Every operation is followed by quiescence (all goroutines
// idle or blocked), so histories are quiescent; batch formation is varied by
// the burst operation.

import (
	"github.com/anthdm/hollywood/actor"
	"github.com/anthdm/hollywood/zzrt"
	"github.com/anthdm/hollywood/zzshim/context"
	"github.com/anthdm/hollywood/zzshim/drpcconn"
	"github.com/anthdm/hollywood/zzshim/net"
	"github.com/anthdm/hollywood/zzshim/tls"
)

type zzNodeC17 struct {
	name string
	ze   *actor.ZZEngine
	r    *Remote
	up   bool
}

// zzPump hands every frame that has arrived at the node's listener to the node's real stream reader.
func zzPump(addr string) (panicked bool) {
	l := net.Listeners[addr]
	if l == nil || l.Impl == nil {
		return false
	}
	srv := l.Impl.(DRPCRemoteServer)
	for _, c := range l.Conns {
		if len(c.Frames) == 0 {
			continue
		}
		func() {
			defer func() {
				if v := recover(); v != nil {
					panicked = true
				}
			}()
			srv.Receive(&drpcRemote_ReceiveStream{drpcconn.NewServerStream(c, context.Canceled)})
		}()
	}
	return
}

type zzSentC17 struct {
	seq       int
	target    int
	hasSender bool
	relay     bool // the sender is an actor on B that is itself a target (A relays on its behalf)
	empty     bool // a TestMessage with no data: it serialises to zero bytes
	expect    int  // 0 delivered, 1 dead letter (peer unreachable at that moment), 2 unknown (connection killed before arrival)
	conn      int  // generation of the A->B connection it was handed to
}

func ZZ_C17() {
	K := zzrt.Param("K")
	A := &zzNodeC17{name: "node:A", ze: actor.ZZNewEngine("node:A")}
	B := &zzNodeC17{name: "node:B", ze: actor.ZZNewEngine("node:B")}
	cfg := NewConfig()
	if zzrt.Param("TLS") == 1 && zzrt.Choose(2) == 1 {
		// both nodes configured for TLS (TLS itself is not modelled, the code paths that depend on the config are)
		cfg = cfg.WithTLS(&tls.Config{})
		zzrt.Reach("tls-configured")
	}
	A.r, B.r = New(A.name, cfg), New(B.name, cfg)
	A.ze.SetRemote(A.r)
	B.ze.SetRemote(B.r)
	tb := []*actor.ZZRecProc{B.ze.Register("t/0"), B.ze.Register("t/1")}
	ta := A.ze.Register("a/0")
	senderA := actor.NewPID(A.name, "a/0")

	zzrt.Assert(A.r.Start(A.ze.E) == nil, "C17:Start-fails")
	A.up = true
	// Start twice is harmless: the second call - here with another engine, as in a second NewEngine(cfg.WithRemote(r))
	// with the same Remote - is rejected and changes nothing for the engine the remote serves
	zzrt.Assert(A.r.Start(actor.ZZNewEngine("node:Z").E) != nil, "C17:second-Start-not-rejected")
	if zzrt.Choose(2) == 1 {
		zzrt.Assert(B.r.Start(B.ze.E) == nil, "C17:Start-fails")
		B.up = true
	}
	zzrt.Quiesce()

	var sent []zzSentC17
	seq := 0
	connGen := 0        // how many A->B connection attempts have succeeded so far
	haveWriter := false // the router of A holds an established writer for B
	killedGen := -1
	unreachable := 0 // expected RemoteUnreachableEvents on A
	replies := 0
	panicked := false

	send := func() {
		// six kinds of message: {target 0, target 1} x {no sender, sender a/0 on A}, a message to target 1 relayed on
		// behalf of target 0 (its sender is itself a target on the peer), an empty message to target 0
		var s zzSentC17
		nk := 4
		if zzrt.Param("EMPTY") == 1 {
			nk = 6
		}
		k := zzrt.Choose(nk)
		if k == 4 {
			s = zzSentC17{seq: seq, target: 1, hasSender: true, relay: true}
			zzrt.Reach("sender-is-a-target-on-the-peer")
		} else if k == 5 {
			s = zzSentC17{seq: seq, target: 0, empty: true}
			zzrt.Reach("empty-message")
		} else {
			s = zzSentC17{seq: seq, target: k % 2, hasSender: k >= 2}
		}
		seq++
		var snd *actor.PID
		if s.hasSender {
			snd = senderA
			if s.relay {
				snd = actor.NewPID(B.name, tb[0].Pid.ID)
			}
		}
		switch {
		case haveWriter:
			s.expect, s.conn = 0, connGen
		case net.Accepting(B.name):
			connGen++
			haveWriter = true
			s.expect, s.conn = 0, connGen
		default:
			s.expect = 1
			unreachable++
		}
		sent = append(sent, s)
		msg := &TestMessage{Data: []byte{byte(s.seq)}}
		if s.empty {
			msg = &TestMessage{}
		}
		A.ze.E.SendWithSender(actor.NewPID(B.name, tb[s.target].Pid.ID), msg, snd)
	}

	for step := 0; step < K; step++ {
		switch zzrt.Choose(6) {
		case 0: // one send, then quiescence
			send()
		case 1: // a burst: two sends before anybody else runs (they may share an envelope)
			wasUp := haveWriter || net.Accepting(B.name)
			send()
			if !wasUp {
				// the second message of a burst towards an unreachable peer is handed to the same failed attempt
				s := zzSentC17{seq: seq, target: zzrt.Choose(2), hasSender: zzrt.Choose(2) == 1, expect: 1}
				seq++
				var snd *actor.PID
				if s.hasSender {
					snd = senderA
				}
				sent = append(sent, s)
				A.ze.E.SendWithSender(actor.NewPID(B.name, tb[s.target].Pid.ID), &TestMessage{Data: []byte{byte(s.seq)}}, snd)
			} else {
				send()
			}
			zzrt.Reach("burst")
		case 2: // the frames that have reached B are read by B's stream reader
			zzrt.Quiesce()
			panicked = panicked || zzPump(B.name)
		case 3: // peer B comes up (first start) / becomes reachable again
			if !B.up {
				if B.r.state.Load() != stateInitialized {
					zzrt.Assume(false)
				}
				zzrt.Assert(B.r.Start(B.ze.E) == nil, "C17:Start-fails")
				B.up = true
			} else if net.Down[B.name] {
				net.Down[B.name] = false
			} else {
				zzrt.Assume(false)
			}
			zzrt.Reach("peer-up")
		case 4: // peer B becomes unreachable: established connections break, dials are refused
			if !B.up || net.Down[B.name] {
				zzrt.Assume(false)
			}
			zzrt.Quiesce()
			net.Down[B.name] = true
			if l := net.Listeners[B.name]; l != nil {
				for _, c := range l.Conns {
					if !c.IsClosed {
						c.Frames = nil // what had not been read yet is lost with the connection
						c.Close()
					}
				}
			}
			if haveWriter {
				killedGen = connGen
				haveWriter = false
				unreachable++
				for i := range sent {
					if sent[i].conn == connGen && sent[i].expect == 0 && !sent[i].arrived(tb) {
						sent[i].expect = 2
					}
				}
			}
			zzrt.Reach("peer-down")
		case 5: // B answers A's actor (the reverse direction uses B's own router and writer)
			if !B.up || net.Down[A.name] {
				zzrt.Assume(false)
			}
			replies++
			B.ze.E.SendWithSender(senderA, &TestMessage{Data: []byte{byte(100 + replies)}}, tb[0].Pid)
			zzrt.Quiesce()
			panicked = panicked || zzPump(A.name)
			zzrt.Reach("reply")
		}
		zzrt.Quiesce()
	}
	zzrt.Quiesce()
	panicked = panicked || zzPump(B.name)
	panicked = panicked || zzPump(A.name)
	zzrt.Quiesce()
	_ = killedGen

	zzrt.Assert(!panicked, "C17:stream-reader-panics")
	// (i) delivery: exactly once, in order per target, with the sender given
	gotEmpty := make([]int, len(tb))
	for k, p := range tb {
		last := -1
		for _, g := range p.Got {
			m, ok := g.Msg.(*TestMessage)
			zzrt.Assert(ok && len(m.Data) <= 1, "C17:delivered-something-else")
			if !ok || len(m.Data) > 1 {
				continue
			}
			if len(m.Data) == 0 {
				gotEmpty[k]++
				continue
			}
			sq := int(m.Data[0])
			zzrt.Assert(sq < len(sent) && sent[sq].target == k, "C17:delivered-to-wrong-target")
			if sq >= len(sent) {
				continue
			}
			if sq <= last {
				zzrt.Fail("C17:remote-message-duplicated-or-reordered")
			}
			last = sq
			zzrt.Assert(sent[sq].expect != 1, "C17:message-to-unreachable-peer-delivered-and-dead-lettered")
			if sent[sq].hasSender && sent[sq].relay {
				zzrt.Assert(g.Sender != nil && g.Sender.Address == B.name && g.Sender.ID == tb[0].Pid.ID, "C17:sender-lost-or-changed")
			} else if sent[sq].hasSender {
				zzrt.Assert(g.Sender != nil && g.Sender.Address == A.name && g.Sender.ID == "a/0", "C17:sender-lost-or-changed")
			} else {
				zzrt.Assert(g.Sender == nil, "C17:message-without-sender-arrives-with-one")
			}
		}
	}
	wantEmpty, maybeEmpty := make([]int, len(tb)), make([]int, len(tb))
	for _, s := range sent {
		if s.empty {
			// empty messages carry no number: they are counted per target
			switch s.expect {
			case 0:
				wantEmpty[s.target]++
			case 2:
				maybeEmpty[s.target]++
			}
			continue
		}
		if s.expect == 0 {
			zzrt.Assert(s.arrived(tb), "C17:message-lost-while-connection-up")
			zzrt.Reach("delivered")
		}
	}
	for k := range tb {
		zzrt.Assert(gotEmpty[k] >= wantEmpty[k], "C17:empty-message-lost-while-connection-up")
		zzrt.Assert(gotEmpty[k] <= wantEmpty[k]+maybeEmpty[k], "C17:empty-message-duplicated")
	}
	// (ii) unreachable peer: one RemoteUnreachableEvent per failed attempt / broken connection, one dead letter per
	// message handed to a failed attempt
	nUnreach := 0
	dead := map[int]int{}
	for _, ev := range A.ze.Events() {
		switch x := ev.(type) {
		case actor.RemoteUnreachableEvent:
			nUnreach++
			zzrt.Assert(x.ListenAddr == B.name, "C17:unreachable-event-names-another-address")
		case actor.DeadLetterEvent:
			if sd, ok := x.Message.(*streamDeliver); ok {
				if tm, ok := sd.msg.(*TestMessage); ok && len(tm.Data) == 1 {
					dead[int(tm.Data[0])]++
				}
			}
		}
	}
	zzrt.Assert(nUnreach == unreachable, "C17:unreachable-peer-not-reported-once-per-failed-attempt")
	for _, s := range sent {
		if s.empty {
			continue
		}
		if s.expect == 1 {
			zzrt.Assert(dead[s.seq] == 1, "C17:message-to-unreachable-peer-not-dead-lettered-exactly-once")
			zzrt.Reach("dead-lettered")
		} else if s.expect == 0 {
			zzrt.Assert(dead[s.seq] == 0, "C17:delivered-message-also-dead-lettered")
		}
	}
	if unreachable > 0 && connGen > 0 {
		zzrt.Reach("unreachable-and-connected-in-one-history")
	}
	// replies reach the requester's node, once each, in order
	nr := 0
	for _, g := range ta.Got {
		if m, ok := g.Msg.(*TestMessage); ok && len(m.Data) == 1 {
			nr++
			zzrt.Assert(int(m.Data[0]) == 100+nr, "C17:reply-lost-or-reordered")
			zzrt.Assert(g.Sender != nil && g.Sender.Address == B.name, "C17:reply-sender-lost")
		}
	}
	zzrt.Assert(nr == replies, "C17:reply-does-not-reach-the-requester")

	// (iii) Stop: after Stop().Wait() the node accepts no more connections; Stop twice is harmless
	A.r.Stop().Wait()
	zzrt.Assert(!net.Accepting(A.name), "C17:accepts-connections-after-Stop")
	A.r.Stop().Wait()
	if !B.up {
		B.r.Stop().Wait() // Stop before Start
	}
}

func (s *zzSentC17) arrived(tb []*actor.ZZRecProc) bool {
	for _, g := range tb[s.target].Got {
		if m, ok := g.Msg.(*TestMessage); ok && len(m.Data) == 1 && int(m.Data[0]) == s.seq {
			return true
		}
	}
	return false
}

// ZZ_C17_Order: sends ordered by happens-before towards one target arrive in that order, whatever the
// interleaving of the sender with the node's own actors at message boundaries. One goroutine on A sends M numbered
// messages to t/0 on B; the stream router and the stream writer of A run on their own goroutines; with ZZMARKONLY=1
// the running goroutine can be preempted exactly at message boundaries (the start of every actor message
// handling, and between two sends of the sender), up to the preemption bound. WARM: the connection may already be
// established by an earlier message (sent and delivered before the burst) or is set up by the burst itself.
func ZZ_C17_Order() {
	M := zzrt.Param("M")
	A := &zzNodeC17{name: "node:A", ze: actor.ZZNewEngine("node:A")}
	B := &zzNodeC17{name: "node:B", ze: actor.ZZNewEngine("node:B")}
	A.r, B.r = New(A.name, NewConfig()), New(B.name, NewConfig())
	A.ze.SetRemote(A.r)
	B.ze.SetRemote(B.r)
	tb := B.ze.Register("t/0")
	zzrt.Assert(A.r.Start(A.ze.E) == nil && B.r.Start(B.ze.E) == nil, "C17:Start-fails")
	zzrt.Quiesce()
	to := actor.NewPID(B.name, tb.Pid.ID)
	first := 0
	if zzrt.Param("WARM") == 1 && zzrt.Choose(2) == 1 {
		A.ze.E.SendWithSender(to, &TestMessage{Data: []byte{0}}, nil)
		zzrt.Quiesce()
		first = 1
		zzrt.Reach("connection-established-before-the-burst")
	}
	zzrt.Go(func() {
		for i := first; i < M; i++ {
			zzrt.Mark()
			A.ze.E.SendWithSender(to, &TestMessage{Data: []byte{byte(i)}}, nil)
		}
	})
	zzrt.Quiesce()
	panicked := zzPump(B.name)
	zzrt.Quiesce()
	zzrt.Assert(!panicked, "C17:stream-reader-panics")
	next := 0
	for _, g := range tb.Got {
		m, ok := g.Msg.(*TestMessage)
		zzrt.Assert(ok && len(m.Data) == 1, "C17:delivered-something-else")
		if !ok || len(m.Data) != 1 {
			continue
		}
		if int(m.Data[0]) != next {
			zzrt.Fail("C17:remote-message-duplicated-lost-or-reordered")
		}
		next++
	}
	zzrt.Assert(next == M, "C17:message-lost-while-connection-up")
	zzrt.Reach("burst-delivered-in-order")
}
