package remote

// C15 harness: the real streamWriter.Invoke encodes a batch, the real
// streamReader.Receive decodes the resulting envelope on the receiving node.
// Targets, senders (nil, equal, differing only in the address/id split - the
// strings are symbolic) and unserialisable payloads are chosen by the solver.

import (
	"errors"
	"net"

	"github.com/anthdm/hollywood/actor"
	"github.com/anthdm/hollywood/zzrt"
	"github.com/anthdm/hollywood/zzshim/time"
)

type zzConn struct{ net.Conn }

// zzPipe is a stream whose Send side queues envelopes for its Recv side.
type zzPipe struct {
	zzStream
	wire   bool // carry the envelope as the bytes of the real MarshalVT, decoded by the real UnmarshalVT
	nbytes int
}

func (p *zzPipe) Send(e *Envelope) error {
	if p.wire {
		b, err := e.MarshalVT()
		zzrt.Assert(err == nil, "C15:envelope-does-not-marshal")
		zzrt.Assert(len(b) == e.SizeVT(), "C15:marshalled-size-differs-from-SizeVT")
		d := &Envelope{}
		err = d.UnmarshalVT(b)
		zzrt.Assert(err == nil, "C15:marshalled-envelope-does-not-unmarshal")
		p.nbytes = len(b)
		e = d
	}
	p.envs = append(p.envs, e)
	return nil
}

func (zzConn) SetDeadline(time.Time) error { return nil }

type zzWire struct {
	tname   string
	seq     int
	payload byte
	bad     bool
	empty   bool // serialises to zero bytes (a message whose fields all have their default values)
}

type zzSer struct{}

func (zzSer) TypeName(m any) string { return m.(*zzWire).tname }
func (zzSer) Serialize(m any) ([]byte, error) {
	w := m.(*zzWire)
	if w.bad {
		return nil, errors.New("zz cannot serialise")
	}
	if w.empty {
		return []byte{}, nil
	}
	return []byte{byte(w.seq), w.payload}, nil
}

type zzWireDeser struct{}

func (zzWireDeser) Deserialize(data []byte, tname string) (any, error) {
	if len(data) != 2 {
		// what an absent / empty message decodes to
		return &zzWire{tname: tname, seq: -1, empty: true}, nil
	}
	return &zzWire{tname: tname, seq: int(data[0]), payload: data[1]}, nil
}

func ZZ_C15_RoundTrip() {
	N := zzrt.Param("N")
	SL := zzrt.Param("SL") // sender address and id are symbolic strings of 1..SL bytes
	za := actor.ZZNewEngine("node:A")
	zb := actor.ZZNewEngine("node:B")
	tids := []string{"t/0", "t/1"}
	procs := []*actor.ZZRecProc{zb.Register(tids[0]), zb.Register(tids[1])}
	pipe := &zzPipe{wire: zzrt.Param("WIRE") == 1}
	w := &streamWriter{writeToAddr: "node:B", engine: za.E, stream: pipe, rawconn: zzConn{}, serializer: zzSer{},
		pid: actor.NewPID("node:A", "stream/node:B")}
	r := &streamReader{remote: &Remote{engine: zb.E}, deserializer: zzWireDeser{}}
	tnames := []string{"ty.A", "ty.B"}

	n := zzrt.Choose(N) + 1
	type sentRec struct {
		target int
		sender *actor.PID
		w      *zzWire
	}
	var sent []sentRec
	msgs := make([]actor.Envelope, n)
	nbad, nnil := 0, 0
	for i := 0; i < n; i++ {
		ti := zzrt.Choose(2)
		var snd *actor.PID
		if zzrt.NondetBool("hasSender") {
			if zzrt.NondetBool("senderIsATarget") {
				// a PID may be the sender of one message and the target of another (or the same) message
				snd = actor.NewPID("node:B", tids[zzrt.Choose(2)])
				zzrt.Reach("sender-is-also-a-target")
			} else {
				snd = actor.NewPID(zzrt.NondetString("senderAddr", zzrt.Choose(SL)+1), zzrt.NondetString("senderID", zzrt.Choose(SL)+1))
			}
		} else {
			nnil++
		}
		wm := &zzWire{tname: tnames[zzrt.Choose(2)], seq: i, payload: zzrt.NondetUint8("payload"), bad: zzrt.NondetBool("unserialisable")}
		if wm.bad {
			nbad++
		} else if zzrt.NondetBool("emptyEncoding") {
			wm.empty = true
			zzrt.Reach("zero-length-payload")
		}
		sent = append(sent, sentRec{ti, snd, wm})
		msgs[i] = actor.Envelope{Msg: &streamDeliver{target: actor.NewPID("node:B", tids[ti]), sender: snd, msg: wm}}
	}
	if nbad > 0 {
		zzrt.Reach("unserialisable")
	}
	if nnil > 0 && nnil < n {
		zzrt.Reach("mixed-nil-sender")
	}

	escaped := false
	func() {
		defer func() {
			if v := recover(); v != nil {
				escaped = true
			}
		}()
		w.Invoke(msgs)
		if len(pipe.envs) > 0 {
			r.Receive(pipe)
		}
	}()
	zzrt.Assert(!escaped, "C15:node-panics")
	if escaped {
		return
	}
	zzrt.Assert(len(pipe.envs) == 1, "C15:batch-not-sent-as-one-envelope")

	// every delivery on the receiving node, in arrival order per target, against the serialisable messages
	// sent to that target in send order
	total := 0
	for k, p := range procs {
		var want []sentRec
		for _, s := range sent {
			if s.target == k && !s.w.bad {
				want = append(want, s)
			}
		}
		for j, g := range p.Got {
			total++
			got, ok := g.Msg.(*zzWire)
			zzrt.Assert(ok, "C15:delivered-something-else")
			if !ok {
				continue
			}
			if j >= len(want) {
				if nbad > 0 {
					zzrt.Fail("C15:unserialisable-message-affects-rest-of-batch")
				}
				zzrt.Fail("C15:delivered-to-wrong-target-or-duplicated")
			}
			s := want[j]
			if s.w.empty {
				zzrt.Assert(got.empty, "C15:reordered-or-wrong-target")
			} else {
				if got.seq != s.w.seq {
					// which kind of mix-up?
					if got.seq >= 0 && got.seq < n && sent[got.seq].w.bad {
						zzrt.Fail("C15:unserialisable-message-delivered")
					}
					if got.seq >= 0 && got.seq < n && sent[got.seq].target != k {
						zzrt.Fail("C15:delivered-to-wrong-target")
					}
					zzrt.Fail("C15:reordered-or-duplicated-or-lost")
				}
				zzrt.Assert(got.payload == s.w.payload, "C15:payload-or-type-changed")
			}
			zzrt.Assert(got.tname == s.w.tname, "C15:payload-or-type-changed")
			if s.sender == nil {
				zzrt.Assert(g.Sender == nil, "C15:message-without-sender-arrives-with-one")
			} else {
				zzrt.Assert(g.Sender != nil, "C15:sender-lost")
				if g.Sender != nil {
					zzrt.Assert(g.Sender.Address == s.sender.Address && g.Sender.ID == s.sender.ID, "C15:arrives-with-a-different-sender")
				}
			}
		}
		if len(p.Got) < len(want) && nbad == 0 {
			zzrt.Fail("C15:message-lost")
		}
	}
	if nbad > 0 {
		zzrt.Assert(total == n-nbad, "C15:unserialisable-message-affects-rest-of-batch")
	} else {
		zzrt.Assert(total == n, "C15:message-count-differs")
	}
}

// ZZ_C15_Codec: the generated wire codec alone. An Envelope with small concrete
// tables and 1..M messages whose three indices are unconstrained symbolic
// int32 (all varint length classes, negative values = 10-byte varints) and
// whose payload bytes are symbolic is marshalled by the real MarshalVT and
// decoded by the real UnmarshalVT; every field must come back.
func ZZ_C15_Codec() {
	M := zzrt.Param("M")
	wide := zzrt.Param("WIDE") // bit 3*j+f set: field f (0 type, 1 sender, 2 target) of message j ranges over all of int32; otherwise 0..127
	e := &Envelope{}
	nT, nG, nS := 1, 1, 1
	if zzrt.Param("TABLES") == 1 {
		nT, nG, nS = zzrt.Choose(3), zzrt.Choose(3), zzrt.Choose(2)
	}
	for i := 0; i < nT; i++ {
		e.TypeNames = append(e.TypeNames, []string{"", "a", "ty.B"}[i])
	}
	for i := 0; i < nG; i++ {
		e.Targets = append(e.Targets, &actor.PID{Address: []string{"n:1", ""}[i], ID: []string{"t/0", "x"}[i]})
	}
	for i := 0; i < nS; i++ {
		e.Senders = append(e.Senders, &actor.PID{Address: "n:2", ID: "s"})
	}
	nM := M
	idx := func(name string, bit int) int32 {
		v := zzrt.NondetInt32(name)
		if wide&(1<<bit) == 0 {
			zzrt.Assume(v >= 0 && v < 128)
		}
		return v
	}
	for j := 0; j < nM; j++ {
		e.Messages = append(e.Messages, &Message{
			Data:          zzrt.NondetBytes("data", zzrt.Choose(zzrt.Param("D")+1)),
			TypeNameIndex: idx("typeNameIndex", 3*j),
			SenderIndex:   idx("senderIndex", 3*j+1),
			TargetIndex:   idx("targetIndex", 3*j+2),
		})
	}
	var b []byte
	var err error
	d := &Envelope{}
	escaped := false
	func() {
		defer func() {
			if v := recover(); v != nil {
				escaped = true
			}
		}()
		b, err = e.MarshalVT()
		if err == nil {
			err = d.UnmarshalVT(b)
		}
	}()
	zzrt.Assert(!escaped, "C15:codec-panics")
	zzrt.Assert(err == nil, "C15:marshalled-envelope-does-not-unmarshal")
	if escaped || err != nil {
		return
	}
	zzrt.Assert(len(b) == e.SizeVT(), "C15:marshalled-size-differs-from-SizeVT")
	if len(b) >= 20 {
		zzrt.Reach("ten-byte-varint-possible")
	}
	zzrt.Assert(len(d.TypeNames) == nT && len(d.Targets) == nG && len(d.Senders) == nS && len(d.Messages) == nM, "C15:codec-changes-table-or-message-count")
	for i := range d.TypeNames {
		if i < nT {
			zzrt.Assert(d.TypeNames[i] == e.TypeNames[i], "C15:codec-changes-type-name")
		}
	}
	for i := range d.Targets {
		if i < nG {
			zzrt.Assert(d.Targets[i] != nil && d.Targets[i].Address == e.Targets[i].Address && d.Targets[i].ID == e.Targets[i].ID, "C15:codec-changes-target")
		}
	}
	for i := range d.Senders {
		if i < nS {
			zzrt.Assert(d.Senders[i] != nil && d.Senders[i].Address == e.Senders[i].Address && d.Senders[i].ID == e.Senders[i].ID, "C15:codec-changes-sender")
		}
	}
	for j := range d.Messages {
		if j >= nM {
			break
		}
		dm, em := d.Messages[j], e.Messages[j]
		zzrt.Assert(dm != nil, "C15:codec-drops-message")
		if dm == nil {
			continue
		}
		zzrt.Assert(dm.TypeNameIndex == em.TypeNameIndex, "C15:codec-changes-type-index")
		zzrt.Assert(dm.SenderIndex == em.SenderIndex, "C15:codec-changes-sender-index")
		zzrt.Assert(dm.TargetIndex == em.TargetIndex, "C15:codec-changes-target-index")
		zzrt.Assert(len(dm.Data) == len(em.Data), "C15:codec-changes-payload-length")
		for k := range dm.Data {
			if k < len(em.Data) {
				zzrt.Assert(dm.Data[k] == em.Data[k], "C15:codec-changes-payload")
			}
		}
	}
}

// ZZ_C15_Proto: the production configuration. Writer and reader use the real ProtoSerializer (its three methods
// are executed; the protobuf runtime below them is the model of engine/protomodel.go, natively the real one), the
// envelope crosses the real generated codec. A batch of 1..N messages, each one of: TestMessage with one data
// byte, actor.PID as a payload, an empty TestMessage (zero bytes on the wire), a PID payload whose id is not valid
// UTF-8 (proto.Marshal refuses it), a value that is not a protobuf message at all. The last two cannot be
// serialised: they are dropped on their own, the node keeps running, the others arrive in order with their
// payload, type and sender.
func ZZ_C15_Proto() {
	N := zzrt.Param("N")
	za := actor.ZZNewEngine("node:A")
	zb := actor.ZZNewEngine("node:B")
	tids := []string{"t/0", "t/1"}
	procs := []*actor.ZZRecProc{zb.Register(tids[0]), zb.Register(tids[1])}
	pipe := &zzPipe{wire: true}
	w := &streamWriter{writeToAddr: "node:B", engine: za.E, stream: pipe, rawconn: zzConn{}, serializer: ProtoSerializer{},
		pid: actor.NewPID("node:A", "stream/node:B")}
	r := &streamReader{remote: &Remote{engine: zb.E}, deserializer: ProtoSerializer{}}
	snd := actor.NewPID("node:A", "s/0")

	n := zzrt.Choose(N) + 1
	type sentRec struct {
		kind, target int
		hasSender    bool
	}
	sent := make([]sentRec, n)
	msgs := make([]actor.Envelope, n)
	nonProto, badUTF8 := false, false
	for i := 0; i < n; i++ {
		s := sentRec{kind: zzrt.Choose(5), target: zzrt.Choose(2), hasSender: zzrt.Choose(2) == 1}
		var m any
		switch s.kind {
		case 0:
			m = &TestMessage{Data: []byte{byte(i)}}
		case 1:
			m = &actor.PID{Address: "p", ID: string(rune('0' + i))}
		case 2:
			m = &TestMessage{}
			zzrt.Reach("zero-length-payload")
		case 3:
			m = &actor.PID{Address: "p", ID: "\xff"}
			badUTF8 = true
			zzrt.Reach("payload-that-proto-Marshal-refuses")
		case 4:
			m = "not a protobuf message"
			nonProto = true
			zzrt.Reach("payload-that-is-not-a-protobuf-message")
		}
		sent[i] = s
		var sp *actor.PID
		if s.hasSender {
			sp = snd
		}
		msgs[i] = actor.Envelope{Msg: &streamDeliver{target: actor.NewPID("node:B", tids[s.target]), sender: sp, msg: m}}
	}
	escaped := false
	func() {
		defer func() {
			if v := recover(); v != nil {
				escaped = true
			}
		}()
		w.Invoke(msgs)
		if len(pipe.envs) > 0 {
			r.Receive(pipe)
		}
	}()
	if escaped {
		if nonProto {
			zzrt.Fail("C15:node-panics[payload-that-is-not-a-protobuf-message]")
		}
		zzrt.Fail("C15:node-panics")
	}
	for k, p := range procs {
		j := 0
		for i, s := range sent {
			if s.target != k || s.kind >= 3 {
				continue
			}
			if j >= len(p.Got) {
				if nonProto || badUTF8 {
					zzrt.Fail("C15:unserialisable-message-affects-rest-of-batch")
				}
				zzrt.Fail("C15:message-lost")
			}
			g := p.Got[j]
			j++
			ok := false
			switch s.kind {
			case 0:
				m, is := g.Msg.(*TestMessage)
				ok = is && len(m.Data) == 1 && m.Data[0] == byte(i)
			case 1:
				m, is := g.Msg.(*actor.PID)
				ok = is && m.Address == "p" && m.ID == string(rune('0'+i))
			case 2:
				m, is := g.Msg.(*TestMessage)
				ok = is && len(m.Data) == 0
			}
			zzrt.Assert(ok, "C15:payload-or-type-changed")
			if s.hasSender {
				zzrt.Assert(g.Sender != nil && g.Sender.Address == snd.Address && g.Sender.ID == snd.ID, "C15:sender-lost-or-changed")
			} else {
				zzrt.Assert(g.Sender == nil, "C15:message-without-sender-arrives-with-one")
			}
		}
		if j < len(p.Got) {
			if nonProto || badUTF8 {
				zzrt.Fail("C15:unserialisable-message-delivered-or-something-in-its-place")
			}
			zzrt.Fail("C15:delivered-to-wrong-target-or-duplicated")
		}
	}
	zzrt.Reach("batch-checked")
}
