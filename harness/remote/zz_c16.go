package remote

// C16 harness: the real streamReader.Receive is fed one envelope whose table
// lengths are chosen and whose per-message indices are symbolic int32.

import (
	"errors"

	"github.com/anthdm/hollywood/actor"
	"github.com/anthdm/hollywood/zzrt"
	"storj.io/drpc"
)

type zzStream struct {
	drpc.Stream
	envs []*Envelope
	i    int
}

var zzEOS = errors.New("zz end of stream")

func (s *zzStream) Send(*Envelope) error { return nil }
func (s *zzStream) Recv() (*Envelope, error) {
	if s.i < len(s.envs) {
		e := s.envs[s.i]
		s.i++
		return e, nil
	}
	return nil, zzEOS
}

// zzPayload is what the stub deserializer produces: it names the type it was
// asked to decode and the message it was decoded from.
type zzPayload struct {
	tname string
	j     int
}

type zzDeser struct{}

func (zzDeser) Deserialize(data []byte, tname string) (any, error) {
	if tname == "unknown" {
		return nil, errors.New("zz unknown type")
	}
	return zzPayload{tname: tname, j: int(data[0])}, nil
}

func ZZ_C16_Reader() {
	M := zzrt.Param("M")
	ze := actor.ZZNewEngine("node:1")
	procs := []*actor.ZZRecProc{ze.Register("t/0"), ze.Register("t/1")}
	r := &streamReader{remote: &Remote{engine: ze.E}, deserializer: zzDeser{}}

	env := &Envelope{}
	typePool := []string{"ty.A", "ty.B", "unknown"}
	nT := zzrt.Choose(3)
	for i := 0; i < nT; i++ {
		env.TypeNames = append(env.TypeNames, typePool[zzrt.Choose(len(typePool))])
	}
	nTg := zzrt.Choose(3)
	for i := 0; i < nTg; i++ {
		// registered targets and one that nobody answers to
		ids := []string{"t/0", "t/1", "t/none"}
		env.Targets = append(env.Targets, actor.NewPID("node:1", ids[zzrt.Choose(len(ids))]))
	}
	nS := zzrt.Choose(3)
	for i := 0; i < nS; i++ {
		env.Senders = append(env.Senders, actor.NewPID("node:2", "s/"+string(rune('0'+i))))
	}
	nM := zzrt.Choose(M) + 1
	for j := 0; j < nM; j++ {
		env.Messages = append(env.Messages, &Message{
			Data:          []byte{byte(j)},
			TargetIndex:   zzrt.NondetInt32("targetIndex"),
			SenderIndex:   zzrt.NondetInt32("senderIndex"),
			TypeNameIndex: zzrt.NondetInt32("typeNameIndex"),
		})
	}

	escaped := false
	func() {
		defer func() {
			if v := recover(); v != nil {
				escaped = true
			}
		}()
		r.Receive(&zzStream{envs: []*Envelope{env}})
	}()
	zzrt.Assert(!escaped, "C16:inbound-envelope-panics-reader")

	seen := map[int]bool{}
	for k, p := range procs {
		for _, g := range p.Got {
			pl, ok := g.Msg.(zzPayload)
			zzrt.Assert(ok, "C16:delivered-something-not-decoded")
			if !ok {
				continue
			}
			zzrt.Assert(pl.j >= 0 && pl.j < nM && !seen[pl.j], "C16:message-delivered-twice")
			seen[pl.j] = true
			m := env.Messages[pl.j]
			ti := int(m.TargetIndex)
			zzrt.Assert(ti >= 0 && ti < nTg, "C16:delivered-with-invalid-target-index")
			if ti >= 0 && ti < nTg {
				zzrt.Assert(env.Targets[ti].ID == p.Pid.ID && g.To == env.Targets[ti], "C16:delivered-to-unaddressed-actor")
			}
			ni := int(m.TypeNameIndex)
			zzrt.Assert(ni >= 0 && ni < nT, "C16:delivered-with-invalid-type-index")
			if ni >= 0 && ni < nT {
				zzrt.Assert(pl.tname == env.TypeNames[ni], "C16:delivered-with-wrong-type")
			}
			si := int(m.SenderIndex)
			if g.Sender != nil {
				zzrt.Assert(si >= 0 && si < nS && g.Sender == env.Senders[si], "C16:delivered-with-unnamed-sender")
			}
			zzrt.Reach("delivered")
			_ = k
		}
	}
}
