package remote

// C16 harness: the real streamReader.Receive is fed a well-formed envelope and
// then, on the same stream, one envelope whose table lengths are chosen and
// whose per-message indices are symbolic int32.

import (
	"errors"

	"github.com/anthdm/hollywood/actor"
	"github.com/anthdm/hollywood/zzrt"
	"storj.io/drpc"
)

type zzStream struct {
	drpc.Stream
	envs []*Envelope
	i    int
}

var zzEOS = errors.New("zz end of stream")

func (s *zzStream) Send(*Envelope) error { return nil }
func (s *zzStream) Recv() (*Envelope, error) {
	if s.i < len(s.envs) {
		e := s.envs[s.i]
		s.i++
		return e, nil
	}
	return nil, zzEOS
}

// The reader harness runs the production configuration: the real ProtoSerializer (protobuf runtime model under
// the executor, the real runtime natively) and type names of the module's own messages. The payload bytes
// 0a 01 <j> decode under both types used here: as TestMessage{Data: [j]} and as actor.PID{Address: string(j)},
// so the decoded value tells which type the reader decoded message j as.
const (
	zzTyA = "remote.TestMessage"
	zzTyB = "actor.PID"
	zzTyU = "unknown.Type"
)

func zzData(j int) []byte { return []byte{0x0a, 0x01, byte(j)} }

func zzDecoded(msg any) (tname string, j int, ok bool) {
	switch m := msg.(type) {
	case *TestMessage:
		if len(m.Data) == 1 {
			return zzTyA, int(m.Data[0]), true
		}
	case *actor.PID:
		if len(m.Address) == 1 && m.ID == "" {
			return zzTyB, int(m.Address[0]), true
		}
	}
	return "", 0, false
}

func ZZ_C16_Reader() {
	M := zzrt.Param("M")
	ze := actor.ZZNewEngine("node:1")
	procs := []*actor.ZZRecProc{ze.Register("t/0"), ze.Register("t/1")}
	r := &streamReader{remote: &Remote{engine: ze.E}, deserializer: ProtoSerializer{}}
	// the node's own infrastructure actors are registered under well-known ids too: a stream writer towards some
	// other peer (a real streamWriter with its real inbox; it is never dialled here) - a peer may address it
	sw := newStreamWriter(ze.E, actor.NewPID("node:1", "router/zz"), "node:9", nil, 0).(*streamWriter)
	sw.stream, sw.rawconn = &zzPipe{}, zzConn{} // as after a successful dial
	ze.RegisterProc(sw.PID().ID, sw)
	sw.inbox.Start(sw)

	// the stream has already carried a well-formed envelope (two messages of two types to t/0): whatever the
	// reader keeps between envelopes is in place when the arbitrary one arrives
	pre := &Envelope{
		TypeNames: []string{zzTyB, zzTyA},
		Targets:   []*actor.PID{actor.NewPID("node:1", "t/0")},
		Senders:   []*actor.PID{actor.NewPID("node:2", "s/pre")},
		Messages: []*Message{
			{Data: zzData(100), TargetIndex: 0, SenderIndex: 0, TypeNameIndex: 0},
			{Data: zzData(101), TargetIndex: 0, SenderIndex: 0, TypeNameIndex: 1},
		},
	}
	env := &Envelope{}
	typePool := []string{zzTyA, zzTyB, zzTyU}
	nT := zzrt.Choose(3)
	unknownChosen := false
	for i := 0; i < nT; i++ {
		tn := typePool[zzrt.Choose(len(typePool))]
		if tn == zzTyU {
			// the unregistered name is, once per envelope, a well-formed name nobody registered, the empty
			// string, or the full name of something in the module's .proto files that is not a message (a
			// field, a service): no message type answers to it, but the descriptor registry knows it
			if !unknownChosen {
				unknownChosen = true
				typePool[2] = []string{zzTyU, "", "actor.PID.address", "remote.Remote"}[zzrt.Choose(4)]
			}
			tn = typePool[2]
			if tn == "" {
				zzrt.Reach("empty-type-name")
			}
			if tn == "remote.Remote" {
				zzrt.Reach("type-name-of-a-service")
			}
		}
		env.TypeNames = append(env.TypeNames, tn)
	}
	nTg := zzrt.Choose(3)
	for i := 0; i < nTg; i++ {
		// registered targets and one that nobody answers to
		ids := []string{"t/0", "t/1", "t/none", sw.PID().ID}
		env.Targets = append(env.Targets, actor.NewPID("node:1", ids[zzrt.Choose(len(ids))]))
	}
	nS := zzrt.Choose(3)
	for i := 0; i < nS; i++ {
		env.Senders = append(env.Senders, actor.NewPID("node:2", "s/"+string(rune('0'+i))))
	}
	nM := zzrt.Choose(M) + 1
	for j := 0; j < nM; j++ {
		env.Messages = append(env.Messages, &Message{
			Data:          zzData(j),
			TargetIndex:   zzrt.NondetInt32("targetIndex"),
			SenderIndex:   zzrt.NondetInt32("senderIndex"),
			TypeNameIndex: zzrt.NondetInt32("typeNameIndex"),
		})
	}

	escaped := false
	func() {
		defer func() {
			if v := recover(); v != nil {
				escaped = true
			}
		}()
		r.Receive(&zzStream{envs: []*Envelope{pre, env}})
	}()
	zzrt.Assert(!escaped, "C16:inbound-envelope-panics-reader")
	zzrt.Quiesce() // whatever was handed to the node's own actors is processed by their workers (a panic there kills the node)

	seen := map[int]bool{}
	for k, p := range procs {
		for _, g := range p.Got {
			var pl struct {
				tname string
				j     int
			}
			var ok bool
			pl.tname, pl.j, ok = zzDecoded(g.Msg)
			zzrt.Assert(ok, "C16:delivered-something-not-decoded")
			if !ok {
				continue
			}
			if pl.j >= 100 {
				// the earlier, well-formed envelope
				zzrt.Assert(pl.j <= 101 && !seen[pl.j] && k == 0 && g.To == pre.Targets[0] && g.Sender == pre.Senders[0] &&
					pl.tname == pre.TypeNames[pl.j-100], "C16:well-formed-envelope-misdelivered")
				seen[pl.j] = true
				continue
			}
			zzrt.Assert(pl.j >= 0 && pl.j < nM && !seen[pl.j], "C16:message-delivered-twice")
			seen[pl.j] = true
			m := env.Messages[pl.j]
			ti := int(m.TargetIndex)
			zzrt.Assert(ti >= 0 && ti < nTg, "C16:delivered-with-invalid-target-index")
			if ti >= 0 && ti < nTg {
				zzrt.Assert(env.Targets[ti].ID == p.Pid.ID && g.To == env.Targets[ti], "C16:delivered-to-unaddressed-actor")
			}
			ni := int(m.TypeNameIndex)
			zzrt.Assert(ni >= 0 && ni < nT, "C16:delivered-with-invalid-type-index")
			if ni >= 0 && ni < nT {
				zzrt.Assert(pl.tname == env.TypeNames[ni], "C16:delivered-with-wrong-type")
			}
			si := int(m.SenderIndex)
			if g.Sender != nil {
				zzrt.Assert(si >= 0 && si < nS && g.Sender == env.Senders[si], "C16:delivered-with-unnamed-sender")
			}
			zzrt.Reach("delivered")
		}
	}
	zzrt.Assert(seen[100] && seen[101], "C16:well-formed-envelope-not-delivered")
}

// ZZ_C16_Bytes: whatever bytes a peer sends. The real Envelope.UnmarshalVT
// (with the nested PID/Message decoders and skip) runs on a buffer of L <= N
// symbolic bytes; if it accepts, the real streamReader.Receive runs on the
// decoded envelope. Oracle: neither panics; a decoded envelope has no nil
// table entries; whatever is delivered went to the target and with the type
// that the message's own in-range indices name.
func ZZ_C16_Bytes() {
	N := zzrt.Param("N")
	L := zzrt.Choose(N + 1)
	if lmin := zzrt.Param("LMIN"); L < lmin {
		zzrt.Assume(false)
	}
	data := zzrt.NondetBytes("wire", L)
	env := &Envelope{}
	var err error
	escaped := false
	func() {
		defer func() {
			if v := recover(); v != nil {
				escaped = true
			}
		}()
		err = env.UnmarshalVT(data)
	}()
	zzrt.Assert(!escaped, "C16:envelope-decoder-panics")
	if err != nil {
		zzrt.Reach("rejected")
		return
	}
	zzrt.Reach("accepted")
	for _, t := range env.Targets {
		zzrt.Assert(t != nil, "C16:decoded-nil-target")
	}
	for _, s := range env.Senders {
		zzrt.Assert(s != nil, "C16:decoded-nil-sender")
	}
	for _, m := range env.Messages {
		zzrt.Assert(m != nil, "C16:decoded-nil-message")
	}
	if len(env.Messages) > 0 {
		zzrt.Reach("accepted-with-message")
	}

	ze := actor.ZZNewEngine("node:1")
	procs := []*actor.ZZRecProc{ze.Register("a"), ze.Register("")}
	r := &streamReader{remote: &Remote{engine: ze.E}, deserializer: zzDeserB{calls: new(int)}}
	func() {
		defer func() {
			if v := recover(); v != nil {
				escaped = true
			}
		}()
		r.Receive(&zzStream{envs: []*Envelope{env}})
	}()
	zzrt.Assert(!escaped, "C16:inbound-bytes-panic-reader")
	nM, nTg, nT, nS := len(env.Messages), len(env.Targets), len(env.TypeNames), len(env.Senders)
	for _, p := range procs {
		for _, g := range p.Got {
			pl, ok := g.Msg.(zzPayloadB)
			zzrt.Assert(ok, "C16:delivered-something-not-decoded")
			if !ok {
				continue
			}
			// which message was it? the deserializer stub numbers its calls; the reader handles messages in order
			zzrt.Assert(pl.call >= 0 && pl.call < nM, "C16:more-deliveries-than-messages")
			if pl.call < 0 || pl.call >= nM {
				continue
			}
			m := env.Messages[pl.call]
			ti := int(m.TargetIndex)
			zzrt.Assert(ti >= 0 && ti < nTg, "C16:delivered-with-invalid-target-index")
			if ti >= 0 && ti < nTg {
				zzrt.Assert(g.To == env.Targets[ti] && env.Targets[ti].ID == p.Pid.ID, "C16:delivered-to-unaddressed-actor")
			}
			ni := int(m.TypeNameIndex)
			zzrt.Assert(ni >= 0 && ni < nT, "C16:delivered-with-invalid-type-index")
			if ni >= 0 && ni < nT {
				zzrt.Assert(pl.tname == env.TypeNames[ni], "C16:delivered-with-wrong-type")
			}
			si := int(m.SenderIndex)
			if g.Sender != nil {
				zzrt.Assert(si >= 0 && si < nS && g.Sender == env.Senders[si], "C16:delivered-with-unnamed-sender")
			}
			zzrt.Reach("delivered-from-bytes")
		}
	}
}

type zzPayloadB struct {
	tname string
	call  int
}

// zzDeserB: every call succeeds and is numbered (the reader decodes messages in order and stops at the first error).
type zzDeserB struct{ calls *int }

func (d zzDeserB) Deserialize(data []byte, tname string) (any, error) {
	*d.calls++
	return zzPayloadB{tname: tname, call: *d.calls - 1}, nil
}

// ZZ_C16_MsgBytes: a well-formed table prefix (produced by the real MarshalVT:
// 1..2 type names, 2 targets, 0..1 sender) followed by one Messages field whose
// K body bytes are symbolic - so multi-byte (also negative, 10-byte) index
// varints, unknown fields and truncated bodies inside a message are reached at
// a depth the whole-buffer harness cannot afford. Same oracle.
func ZZ_C16_MsgBytes() {
	K := zzrt.Choose(zzrt.Param("K") + 1)
	if kmin := zzrt.Param("KMIN"); K < kmin {
		zzrt.Assume(false)
	}
	pre := &Envelope{TypeNames: []string{"ty.A"}, Targets: []*actor.PID{actor.NewPID("node:1", "t/0"), actor.NewPID("node:1", "t/1")}}
	if zzrt.Choose(2) == 1 {
		pre.TypeNames = append(pre.TypeNames, "ty.B")
		pre.Senders = []*actor.PID{actor.NewPID("node:2", "s/0")}
	}
	data, merr := pre.MarshalVT()
	zzrt.Assert(merr == nil, "C16:harness-prefix-does-not-marshal")
	data = append(data, 0x22, byte(K))
	data = append(data, zzrt.NondetBytes("msg", K)...)

	env := &Envelope{}
	var err error
	escaped := false
	func() {
		defer func() {
			if v := recover(); v != nil {
				escaped = true
			}
		}()
		err = env.UnmarshalVT(data)
	}()
	zzrt.Assert(!escaped, "C16:envelope-decoder-panics")
	if err != nil {
		zzrt.Reach("rejected")
		return
	}
	zzrt.Assert(len(env.Messages) == 1 && env.Messages[0] != nil, "C16:decoded-message-count")
	zzrt.Assert(len(env.Targets) == 2 && len(env.TypeNames) == len(pre.TypeNames) && len(env.Senders) == len(pre.Senders), "C16:decoded-tables-differ-from-encoded")
	m := env.Messages[0]
	if m.TargetIndex < 0 || m.SenderIndex < -1 || m.TypeNameIndex < 0 {
		zzrt.Reach("negative-index-decoded")
	}

	ze := actor.ZZNewEngine("node:1")
	procs := []*actor.ZZRecProc{ze.Register("t/0"), ze.Register("t/1")}
	r := &streamReader{remote: &Remote{engine: ze.E}, deserializer: zzDeserB{calls: new(int)}}
	func() {
		defer func() {
			if v := recover(); v != nil {
				escaped = true
			}
		}()
		r.Receive(&zzStream{envs: []*Envelope{env}})
	}()
	zzrt.Assert(!escaped, "C16:inbound-bytes-panic-reader")
	n := 0
	for k, p := range procs {
		for _, g := range p.Got {
			n++
			pl, ok := g.Msg.(zzPayloadB)
			zzrt.Assert(ok && pl.call == 0, "C16:delivered-something-not-decoded")
			ti := int(m.TargetIndex)
			zzrt.Assert(ti == k, "C16:delivered-to-unaddressed-actor")
			ni := int(m.TypeNameIndex)
			zzrt.Assert(ni >= 0 && ni < len(env.TypeNames), "C16:delivered-with-invalid-type-index")
			if ni >= 0 && ni < len(env.TypeNames) {
				zzrt.Assert(pl.tname == env.TypeNames[ni], "C16:delivered-with-wrong-type")
			}
			if g.Sender != nil {
				zzrt.Assert(m.SenderIndex == 0 && len(env.Senders) == 1 && g.Sender == env.Senders[0], "C16:delivered-with-unnamed-sender")
			}
			zzrt.Reach("delivered-from-bytes")
		}
	}
	zzrt.Assert(n <= 1, "C16:message-delivered-twice")
}
