#!/usr/bin/env python3
"""Regenerates /verif/MANIFEST.json from the table below (run by hand after adding a check)."""
import json, sys

ENV = "GOFLAGS=-mod=mod GOPROXY=off GOSUMDB=off GOTOOLCHAIN=local"
TRUST = ("gosym's SSA interpreter and term encoding (guarded by native replay of every counterexample and by "
         "translation validation: sampled passing paths are re-run natively and their observations compared); z3 4.8.12; "
         "the environment models under /verif/rt/zzshim; the bounds stated in the evidence file")

# id -> (level text, level note extra, technique, design_ref)
CHECKS = {
 "C04": ("Bounded symbolic execution of the real process.Start/Invoke/tryRestart/cleanup and Engine.Stop/Poison/send on a bare engine, over every history of <=4 (thorough 5) operations send/deliver-batch/Poison/Stop with arbitrary batch splits, a symbolic crash flag per message (and per lifecycle handler in a second harness), MaxRestarts 0..2; the per-incarnation protocol Initialized, Started, user*, one final Stopped, nothing after, is asserted on the recorded trace. z3 decides every branch and assertion; a counterexample is reported only after it reproduces natively.",
         "L1 process unit: the Inbox is replaced by a fake that mirrors Inbox.Start/Stop and lets the harness choose every batch split; concurrent Spawn/Send interleavings are outside this check.", "symbolic execution of go/ssa + z3, L1 process-unit harness", "§5 C04"),
 "C05": ("Same L1 unit as C04 with the delivery oracle: no panic escapes, user messages are handed to Receive at most once and in send order with payload and sender preserved, the failing message is not redelivered, one ActorRestartedEvent with incrementing count and one fresh receiver per crash. Crash position is a symbolic flag on every message, batch splits arbitrary.",
         "L1 process unit with a fake inbox; restart delay 0; concurrent senders during the delay are outside this check.", "symbolic execution of go/ssa + z3, L1 process-unit harness", "§5 C05"),
 "C06": ("Same L1 unit with the budget oracle: restarts <= MaxRestarts for MaxRestarts 0..2, the budget-exhausting panic does not escape, exactly one ActorMaxRestartsExceededEvent, the actor is unregistered and a later send dead-letters; witness 'budget-exhausted' must be reached.",
         "L1 process unit with a fake inbox; children are outside this check.", "symbolic execution of go/ssa + z3, L1 process-unit harness", "§5 C06"),
 "C07": ("Same L1 unit with the stop oracle: at the instant a Stop/Poison context is cancelled (hook in the context model) Stopped has been handled and the PID is unregistered, and for a first graceful Poison all earlier messages were handled; after the final drain every context is done, the actor is unregistered, later sends dead-letter and no poison pill was visible to Receive.",
         "L1 process unit with a fake inbox: callers do not run concurrently with the worker (histories, not schedules).", "symbolic execution of go/ssa + z3, L1 process-unit harness", "§5 C07"),
 "C13": ("Same L1 unit with middleware chains of length 0..2 of recording middlewares: at every entry of Receive (Initialized, Started, Stopped, user; spawn, stop, poison, crash, restart and max-restarts paths) the chain is active in full and outermost-first and every middleware saw the delivered message.",
         "L1 process unit with a fake inbox.", "symbolic execution of go/ssa + z3, L1 process-unit harness", "§5 C13"),
 "C14": ("One-step induction over the real RingBuffer code: from an arbitrary state satisfying the representation invariant (capacity 1..6, thorough 1..12; contents, head, length, pushed value and n symbolic 64-bit) one Push / Pop / PopN / Len preserves the invariant and transforms the abstract queue exactly as a FIFO does; New establishes the invariant (base case). Plus bounded operation sequences from New(1..3) against a slice model (4, thorough 6 operations), plus the concurrent clause: 2 goroutines x 1 operation (thorough also 2x2 and 3x1) on a shared ring under every interleaving within 2 preemptions, checked for the existence of a linearisation consistent with real-time order and for data races (happens-before detector over the repository's plain and atomic accesses).",
         "The inductive step covers sequential histories of any length within the capacity bound; the concurrent clause is bounded by goroutines, operations and preemptions. A data race reported by the executor's detector cannot be confirmed by native replay and is trusted.", "symbolic execution of go/ssa + z3: inductive step harnesses, bounded sequences, bounded-preemption schedules with linearizability and race oracle", "§5 C14"),
}

NA = {
}
for i in range(1, 21):
    NA.setdefault("C%02d" % i, "no solver-based check completed for this property in the time available; see DESIGN.md section 14")


CHECKS.update({
 "C01": ("Bounded symbolic execution of the real Inbox.Send/schedule/process/run/Start, RingBuffer and goscheduler with sender goroutines and a recording Processer, over every interleaving at synchronisation granularity within a preemption bound of 2 (2 senders x 2 messages quick, 3 x 2 thorough; initial ring size 1..2 so growth, wrap and batch splits occur; Start before or racing with the senders), plus the real process with its real Inbox while Spawn races with two senders. Oracle: every accepted message reaches Receive/Invoke exactly once, per-sender order kept, payload (symbolic) and sender preserved.",
         "Interleavings are enumerated by the executor's scheduler decisions (context bounding), data is symbolic; beyond the preemption/thread/message bounds nothing is claimed.", "symbolic execution of go/ssa with a bounded-preemption scheduler + z3", "§5 C01"),
 "C02": ("Same threaded units as C01; the recording receiver yields in the middle of every Invoke/Receive and flags any second entry while one is active (user messages, Initialized/Started on the spawner goroutine, Stopped and the restart on the worker goroutine after a symbolic crash).",
         "Non-overlap and happens-before are both checked: the receiver declares an unsynchronised write to its state at every entry, and the executor's vector-clock race detector (release/acquire edges from the atomics, mutexes, go statements and channel operations the code actually performs) must order every pair of entries and finds unordered plain/atomic conflicts in the repository's own accesses. A reported race cannot be confirmed by native replay and is trusted. Preemption bound 2.", "symbolic execution of go/ssa with a bounded-preemption scheduler + z3", "§5 C02"),
 "C03": ("Same inbox unit as C01: at quiescence (every goroutine finished, nobody sends any more) all accepted messages were handled, the ring is empty and the status is idle, for every interleaving of Send (push, try-schedule) with the worker's last empty pop, its running->idle transition, its re-check and with Start, within preemption bound 2.",
         "Bounds: 2 (thorough 3) senders x 2 messages, ring size 1..2, preemption bound 2.", "symbolic execution of go/ssa with a bounded-preemption scheduler + z3", "§5 C03"),
 "C08": ("Threaded execution of the real process/Context/SafeMap/Inbox code on a supervision tree (depth 1, fan-out 2): each node checks, at the instant it handles Stopped, that all its descendants have handled Stopped and are unregistered; the stop context's cancellation instant is checked the same way; Children()/Parent() are probed after a child stopped on its own. Shutdown by Stop or Poison, optionally racing with a third party poisoning a child, or with one child panicking once in its Stopped handler (the parent's shutdown must still complete). Second harness: a child poisoned by a third party asks the root, from inside its Stopped handler, for a replacement under the same name and id; Children() must then list the live replacement and a shutdown of the root must take it down. Two reproduced defects are listed as known findings.",
         "Preemption bound 1 (thorough 2) for the shutdown harness, 2 for the replacement harness; children crashing on user messages during shutdown are outside the claim; native replays see Go's random map order and are attempted several times.", 'symbolic execution of go/ssa with a bounded-preemption scheduler + z3', '§5 C08'),
 "C09": ("Event-stream unit: the real eventStream receiver, Engine.send/SendLocal/BroadcastEvent/Subscribe/Unsubscribe and Registry on a bare engine, over every history of 4 (thorough 5) symbolic operations (subscribe/unsubscribe with the same or an equal PID object, broadcast, send to an unregistered local PID with/without sender, send to a foreign address without remote, send to nil, a subscriber stops while subscribed). Oracle: no panic, each undeliverable message is reported exactly once with its target, message and sender to every live subscriber, and the event queue drains (finite events).",
         "The event stream's own inbox is replaced by a queue the harness drains; 'finite' is checked as 'drains within 30 handled events per operation'.", "symbolic execution of go/ssa + z3, event-stream unit harness", "§5 C09"),
 "C10": ("Sequential histories of 5 (thorough 6) symbolic operations spawn/send/stop/deliver on one id (duplicate spawn runs no producer, publishes ActorDuplicateIdEvent, leaves the owner and its pending messages untouched; GetPID answers exactly while registered; respawn after stop works), plus two concurrent SpawnProc of one id with concurrent senders on the real Inbox (exactly one producer runs, one duplicate event, one Started) within preemption bound 2, plus a parent with two children that is stopped or poisoned while another goroutine spawns the parent's id again: the id may only be taken again once the previous owner's children have handled Stopped and are unregistered (preemption bound 1, thorough 2).",
         "SpawnChild goes through the same Registry.add; a respawn accepted between an actor's unregistration and its own Stopped handler is not flagged.", 'symbolic execution of go/ssa + z3, L1 and L2 harnesses', '§5 C10'),
 "C11": ("Threaded execution of the real Engine.Request / Response.Result / Response.Send / Registry with 2 concurrent requests, 0..2 replies each from a replier goroutine, timeout timers that may fire at any scheduling point, and response ids from math/rand modelled as any value in range (the solver picks them, so an id collision is found if ids can collide). Oracle: Result returns the reply to that very request or an error, never returns without reply or timeout, the response PID is unregistered afterwards, a reply sent after Result returned becomes a dead letter.",
         "Preemption bound 1 (thorough 2); the timeout is a model (timer goroutine), not wall-clock time.", "symbolic execution of go/ssa with a bounded-preemption scheduler + z3", "§5 C11"),
 "C12": ("Event-stream unit as for C09 over histories of subscribe/unsubscribe/broadcast on 2 subscriber PIDs given as the same or an equal-but-distinct PID object (symbolic): each broadcast reaches each current subscriber exactly once, in order, nothing after unsubscribe, no duplicates after double subscribe. Lifecycle events: L1 process-unit histories count ActorStarted/Restarted/Stopped events per occurrence.",
         "Sequential: concurrent broadcasters are outside the claim.", "symbolic execution of go/ssa + z3, event-stream unit and L1 harnesses", "§5 C12"),
 "C15": ("(a) The real streamWriter.Invoke encodes a batch of 1..2 (thorough 3) messages and the real streamReader.Receive decodes the resulting Envelope on a second bare engine. Targets, type names, payload byte, absence of a sender, the sender's address and id strings (1..2 symbolic bytes each, so equal senders and senders differing only in the address/id split are found by the solver) and a 'cannot be serialised' flag per message are symbolic. Oracle: same count (minus unserialisable ones), same order, right target, payload, type and sender, nil sender stays nil, no panic. (b) The same with the Envelope carried as the bytes of the real generated MarshalVT and decoded by the real UnmarshalVT (size == SizeVT, decoding succeeds). (c) The generated codec alone: SizeVT/MarshalVT/UnmarshalVT of Envelope, Message and PID on an envelope whose message indices range over all of int32 one field at a time (every varint length class; negative values are 10-byte varints) with symbolic payload bytes; every field must come back (thorough: all three wide at once, two messages, table shapes).",
         'Protobuf marshalling of the payloads (reflection) and DRPC framing are outside: serializer/deserializer are stubs.', 'symbolic execution of go/ssa + z3, writer/codec/reader round-trip harnesses', '§5 C15'),
 "C16": ("Three harnesses over the real receive path. (a) streamReader.Receive on one decoded Envelope with 0..2 type names, targets and senders and 1..2 (thorough 3) messages whose TargetIndex/SenderIndex/TypeNameIndex are unconstrained symbolic int32. (b) The real protobuf decoder Envelope.UnmarshalVT (with PID/Message.UnmarshalVT and skip) on every byte string of length 0..5 (thorough 0..7), each byte a symbolic 8-bit value, then the reader on whatever was accepted. (c) A well-formed table prefix from the real MarshalVT followed by one Messages field whose 0..6 (thorough 0..8) body bytes are symbolic, so multi-byte and negative index varints, unknown fields and truncated bodies are reached. Oracle everywhere: no panic in decoder or reader; a decoded envelope has no nil entries; whatever is delivered went to the target, with the type and sender that the message's own in-range indices name; z3 decides every branch on the bytes and every bounds check.",
         "DRPC framing and payload decoding (stub Deserializer) are outside the claim; byte strings beyond the stated lengths are outside.", "symbolic execution of go/ssa + z3: reader harness, decoder on symbolic byte buffers", "§5 C16"),
 "C18": ("The real Agent.handleMembers/memberJoin/memberLeave/rebuildKinds and MemberSet code is run on sequences of 3 (thorough 4) snapshots over a universe of 3 (thorough 4) members; membership of each member in each snapshot and a duplicate entry are symbolic booleans. Oracle after each snapshot: view == snapshot by ID, exactly one join event per new member, one leave event per dropped member, none for members that stayed, kind set == kinds advertised by the view.",
         "Agent state is read directly instead of through the Members()/HasKind() request plumbing; members keep their host and kinds.", "symbolic execution of go/ssa + z3, agent snapshot harness", "§5 C18"),
 "C19": ("2 (thorough 3) real Agents on bare engines joined by a synchronous in-memory network; quiescent histories of 3 symbolic operations (activate from any member with the select function picking any offered member, deactivate, late join, leave), notifications drained in every arrival order. Oracle: Activate returns nil and spawns nothing for a known id or unknown kind, otherwise exactly one actor on the selected capable member; afterwards every member resolves the id to the same PID and GetActiveByKind lists it; late joiner learns all; deactivate removes everywhere and stops the actor; leave drops hosted activations.",
         "Quiescent histories only; Cluster.Activate/GetActive* request plumbing replaced by sending the same messages to the agents.", "symbolic execution of go/ssa + z3, multi-agent harness", "§5 C19"),
 "C20": ("The real SelfManaged.Receive (Handshake, Members, memberLeave) with MemberSet is run on histories of 3 (thorough 4) operations over a universe of 3 (thorough 4) members; list contents are symbolic. Oracle: no panic, member list equals the model after each message, a handshake is answered to the peer with the complete list, the agent is told the correct list on handshake and on removal, an unreachable report for a non-member changes nothing.",
         "The Started handler (zeroconf, ping repeater) and the event-stream child are outside the claim.", "symbolic execution of go/ssa + z3, provider history harness", "§5 C20"),
})
NA["C17"] = "not applicable to solver-based checking of the real code within reach: the property is about two engines talking over TCP through storj.io/drpc (net.Listen/net.Dial, drpcserver, drpcconn, goroutines inside those libraries, dial retries on wall-clock time); none of that can be executed symbolically by the SSA executor, and replacing it by stubs would leave only the writer/reader encoding (claimed under C15/C16) and the router's map bookkeeping. See DESIGN.md section 14."

def main():
    checks = []
    for pid in sorted(CHECKS):
        text, note, tech, ref = CHECKS[pid]
        checks.append({
            "property_id": pid,
            "quick_cmd": f"cd /verif && {ENV} ./bin/gosym run {pid} --tier quick",
            "thorough_cmd": f"cd /verif && {ENV} ./bin/gosym run {pid} --tier thorough",
            "evidence_file": f"/verif/evidence/{pid}.json",
            "replay_cmd_template": "cd /verif && ./bin/gosym replay {path}",
            "engine": "gosym",
            "level_claimed": {"category": "model_checking", "text": text, "design_ref": ref},
            "level_note": note + " Trusted base: " + TRUST,
            "technique": tech,
        })
    m = {
        "version": 1,
        "setup_cmd": f"cd /verif/engine && {ENV} go build -o ../bin/gosym . && ../bin/gosym selftest",
        "hooks": {
            "guard": "none (no hooks committed to /repo: a Go build overlay adds the harness files and environment models)",
            "enable": "gosym builds a Go build overlay from /repo's working tree on every run: harness files from /verif/harness/<pkg> appear in-package, virtual packages zzrt and zzshim/* are added, and the import paths of sync, sync/atomic, time, math/rand, context in the repository's files are substituted by the models",
            "baseline_off_cmd": "cd /repo && go test -mod=mod -vet=off -count=1 -timeout 25m ./...",
            "source_commits": [],
            "add_only": True,
        },
        "engines": [{
            "name": "gosym", "path": "/verif/engine",
            "serves_properties": sorted(CHECKS),
            "kind_free_text": "bounded symbolic executor over go/ssa of the repository's own functions (encoding regenerated from /repo on every run), z3 over a pipe, native tape replay of counterexamples, translation validation of passing paths",
        }],
        "checks": checks,
        "not_applicable": [{"property_id": k, "reason": NA[k]} for k in sorted(NA) if k not in CHECKS],
        "notes": "Known findings and repaired defects: /verif/KNOWN_FINDINGS.txt. Repairs are 'fix:' commits in /repo.",
    }
    json.dump(m, open("/verif/MANIFEST.json", "w"), indent=1)
    print("checks:", [c["property_id"] for c in checks], "n/a:", [x["property_id"] for x in m["not_applicable"]])

main()
