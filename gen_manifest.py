#!/usr/bin/env python3
"""Regenerates /verif/MANIFEST.json from the table below (run by hand after adding a check)."""
import json, sys

ENV = "GOFLAGS=-mod=mod GOPROXY=off GOSUMDB=off GOTOOLCHAIN=local"
TRUST = ("gosym's SSA interpreter and term encoding (guarded by native replay of every counterexample and by "
         "translation validation: sampled passing paths are re-run natively and their observations compared); z3 4.8.12; "
         "the environment models under /verif/rt/zzshim; the bounds stated in the evidence file")

# id -> (level text, level note extra, technique, design_ref)
CHECKS = {
 "C04": ("Bounded symbolic execution of the real process.Start/Invoke/tryRestart/cleanup and Engine.Stop/Poison/send on a bare engine, over every history of <=4 (thorough 5) operations send/deliver-batch/Poison/Stop with arbitrary batch splits, a symbolic crash flag per message (and per lifecycle handler in a second harness), MaxRestarts 0..2; the per-incarnation protocol Initialized, Started, user*, one final Stopped, nothing after, is asserted on the recorded trace. z3 decides every branch and assertion; a counterexample is reported only after it reproduces natively.",
         "L1 process unit: the Inbox is replaced by a fake that mirrors Inbox.Start/Stop and lets the harness choose every batch split; concurrent Spawn/Send interleavings are outside this check.", "symbolic execution of go/ssa + z3, L1 process-unit harness", "§5 C04"),
 "C05": ("Same L1 unit as C04 with the delivery oracle: no panic escapes, user messages are handed to Receive at most once and in send order with payload and sender preserved, the failing message is not redelivered, one ActorRestartedEvent with incrementing count and one fresh receiver per crash. Crash position is a symbolic flag on every message, batch splits arbitrary.",
         "L1 process unit with a fake inbox; restart delay 0; concurrent senders during the delay are outside this check.", "symbolic execution of go/ssa + z3, L1 process-unit harness", "§5 C05"),
 "C06": ("Same L1 unit with the budget oracle: restarts <= MaxRestarts for MaxRestarts 0..2, the budget-exhausting panic does not escape, exactly one ActorMaxRestartsExceededEvent, the actor is unregistered and a later send dead-letters; witness 'budget-exhausted' must be reached.",
         "L1 process unit with a fake inbox; children are outside this check.", "symbolic execution of go/ssa + z3, L1 process-unit harness", "§5 C06"),
 "C07": ("Same L1 unit with the stop oracle: at the instant a Stop/Poison context is cancelled (hook in the context model) Stopped has been handled and the PID is unregistered, and for a first graceful Poison all earlier messages were handled; after the final drain every context is done, the actor is unregistered, later sends dead-letter and no poison pill was visible to Receive.",
         "L1 process unit with a fake inbox: callers do not run concurrently with the worker (histories, not schedules).", "symbolic execution of go/ssa + z3, L1 process-unit harness", "§5 C07"),
 "C13": ("Same L1 unit with middleware chains of length 0..2 of recording middlewares: at every entry of Receive (Initialized, Started, Stopped, user; spawn, stop, poison, crash, restart and max-restarts paths) the chain is active in full and outermost-first and every middleware saw the delivered message.",
         "L1 process unit with a fake inbox.", "symbolic execution of go/ssa + z3, L1 process-unit harness", "§5 C13"),
 "C14": ("One-step induction over the real RingBuffer code: from an arbitrary state satisfying the representation invariant (capacity 1..6, thorough 1..12; contents, head, length, pushed value and n symbolic 64-bit) one Push / Pop / PopN / Len preserves the invariant and transforms the abstract queue exactly as a FIFO does; New establishes the invariant (base case). Covers histories of any length within the capacity bound.",
         "Sequential semantics under the buffer's mutex; linearizability under concurrent callers relies on every method holding that mutex for its whole body (not re-checked here).", "symbolic execution of go/ssa + z3, inductive step harnesses", "§5 C14"),
}

NA = {
}
for i in range(1, 21):
    NA.setdefault("C%02d" % i, "no solver-based check completed for this property in the time available; see DESIGN.md section 14")

def main():
    checks = []
    for pid in sorted(CHECKS):
        text, note, tech, ref = CHECKS[pid]
        checks.append({
            "property_id": pid,
            "quick_cmd": f"cd /verif && {ENV} ./bin/gosym run {pid} --tier quick",
            "thorough_cmd": f"cd /verif && {ENV} ./bin/gosym run {pid} --tier thorough",
            "evidence_file": f"/verif/evidence/{pid}.json",
            "replay_cmd_template": "cd /verif && ./bin/gosym replay {path}",
            "engine": "gosym",
            "level_claimed": {"category": "model_checking", "text": text, "design_ref": ref},
            "level_note": note + " Trusted base: " + TRUST,
            "technique": tech,
        })
    m = {
        "version": 1,
        "setup_cmd": f"cd /verif/engine && {ENV} go build -o ../bin/gosym . && ../bin/gosym selftest",
        "hooks": {
            "guard": "none (no hooks committed to /repo: a Go build overlay adds the harness files and environment models)",
            "enable": "gosym builds a Go build overlay from /repo's working tree on every run: harness files from /verif/harness/<pkg> appear in-package, virtual packages zzrt and zzshim/* are added, and the import paths of sync, sync/atomic, time, math/rand, context in the repository's files are substituted by the models",
            "baseline_off_cmd": "cd /repo && go test -mod=mod -vet=off -count=1 -timeout 25m ./...",
            "source_commits": [],
            "add_only": True,
        },
        "engines": [{
            "name": "gosym", "path": "/verif/engine",
            "serves_properties": sorted(CHECKS),
            "kind_free_text": "bounded symbolic executor over go/ssa of the repository's own functions (encoding regenerated from /repo on every run), z3 over a pipe, native tape replay of counterexamples, translation validation of passing paths",
        }],
        "checks": checks,
        "not_applicable": [{"property_id": k, "reason": NA[k]} for k in sorted(NA) if k not in CHECKS],
        "notes": "Known findings and repaired defects: /verif/KNOWN_FINDINGS.txt. Repairs are 'fix:' commits in /repo.",
    }
    json.dump(m, open("/verif/MANIFEST.json", "w"), indent=1)
    print("checks:", [c["property_id"] for c in checks], "n/a:", [x["property_id"] for x in m["not_applicable"]])

main()
