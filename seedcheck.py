#!/usr/bin/env python3
"""Validate a seeded change and run the registered checks against it.

usage: seedcheck.py <seed-dir> [--props C01,C02|all] [--tier quick|thorough] [--skip-validate] [--keep]

<seed-dir> holds patch.diff, demo/<relative path>/..._test.go, demo_cmd.txt, meta.json (property).
Everything happens in a scratch git worktree of /repo under /tmp/sc (removed afterwards); /repo is never touched and
the committed evidence is not overwritten (GOSYM_OUT points into the scratch area).

Validation (all must hold for the seed to be kept):
  1. demo passes on the unchanged tree      2. patch applies and the module builds
  3. demo fails with the patch              4. the repository's own suite passes with the patch (demo removed)
Then: gosym run <prop> for the requested properties with GOSYM_REPO=<worktree>; a check "detects" the seed when it
exits 1 with a VIOLATION line.
Result: JSON on stdout and in <seed-dir>/result.json.
"""
import json, os, shutil, subprocess, sys, time

ENV = dict(os.environ, GOFLAGS="-mod=mod", GOPROXY="off", GOSUMDB="off", GOTOOLCHAIN="local")


def sh(cmd, cwd, timeout=1500, env=ENV):
    t0 = time.time()
    try:
        r = subprocess.run(cmd, shell=True, cwd=cwd, env=env, capture_output=True, text=True, timeout=timeout)
        return r.returncode, r.stdout + r.stderr, time.time() - t0
    except subprocess.TimeoutExpired as e:
        return 124, (e.stdout or b"").decode(errors="replace") if isinstance(e.stdout, bytes) else (e.stdout or "") + "\nTIMEOUT", time.time() - t0


NS = "unshare -n sh -c 'ip link set lo up; ip link set lo multicast on; ip route add 224.0.0.0/4 dev lo 2>/dev/null; exec \"$@\"' sh "


def ns(cmd):
    """Run a go test command in a private network namespace: the cluster tests discover members by mDNS and
    would otherwise see other test processes running on this machine."""
    return NS + "sh -c " + json.dumps(cmd)


def main():
    args = sys.argv[1:]
    seed = os.path.abspath(args[0])
    props, tier, skip, keep = None, "quick", False, False
    i = 1
    while i < len(args):
        if args[i] == "--props":
            props = args[i + 1]; i += 2
        elif args[i] == "--tier":
            tier = args[i + 1]; i += 2
        elif args[i] == "--skip-validate":
            skip = True; i += 1
        elif args[i] == "--keep":
            keep = True; i += 1
        else:
            raise SystemExit("bad arg " + args[i])
    meta = json.load(open(os.path.join(seed, "meta.json")))
    prop = meta["property"]
    name = os.path.basename(os.path.dirname(seed)) + os.path.basename(seed) if os.path.basename(seed) in ("a", "b", "c") else os.path.basename(seed)
    base = "/tmp/sc"
    os.makedirs(base, exist_ok=True)
    wt = os.path.join(base, "wt-" + name + "-" + str(os.getpid()))
    out = os.path.join(base, "out-" + name + "-" + str(os.getpid()))
    res = {"seed": seed, "property": prop, "tier": tier}
    subprocess.run(["git", "-C", "/repo", "worktree", "add", "-q", "--detach", wt, "HEAD"], check=True)
    res["repo_commit"] = subprocess.run(["git", "-C", wt, "rev-parse", "--short", "HEAD"], capture_output=True, text=True).stdout.strip()
    try:
        demo_cmd = open(os.path.join(seed, "demo_cmd.txt")).read().strip().splitlines()[0]
        demo_files = []
        droot = os.path.join(seed, "demo")
        for dp, _, fns in os.walk(droot):
            for fn in fns:
                rel = os.path.relpath(os.path.join(dp, fn), droot)
                demo_files.append(rel)

        def put_demo():
            for rel in demo_files:
                os.makedirs(os.path.dirname(os.path.join(wt, rel)) or wt, exist_ok=True)
                shutil.copy(os.path.join(droot, rel), os.path.join(wt, rel))

        def del_demo():
            for rel in demo_files:
                try:
                    os.remove(os.path.join(wt, rel))
                except FileNotFoundError:
                    pass

        ok = True
        if not skip:
            put_demo()
            rc, o, dt = sh(ns(demo_cmd), wt, 400)
            res["demo_unpatched"] = {"rc": rc, "s": round(dt, 1), "tail": o[-600:]}
            ok &= rc == 0
        rc, o, _ = sh("git apply --whitespace=nowarn " + os.path.join(seed, "patch.diff"), wt)
        res["apply"] = {"rc": rc, "out": o[-400:]}
        if rc != 0:
            res["valid"] = False
            return res
        rc, o, _ = sh("go build ./... ", wt)
        res["build"] = {"rc": rc, "out": o[-600:]}
        ok &= rc == 0
        if not skip and ok:
            put_demo()
            rc, o, dt = sh(ns(demo_cmd), wt, 400)
            res["demo_patched"] = {"rc": rc, "s": round(dt, 1), "tail": o[-1200:]}
            ok &= rc != 0
            del_demo()
            # the repository's suite, package by package; the cluster tests rely on 10 ms sleeps and flake under
            # machine load on the unchanged tree too, so a failing package is retried (up to 4 runs) and counts as
            # passing if one complete run of it passes
            suite = []
            for pkg in ["./actor/", "./cluster/", "./remote/", "./ringbuffer/", "./safemap/"]:
                runs = []
                for k in range(int(os.environ.get("SEEDCHECK_RETRIES", "4"))):
                    rc, o, dt = sh(ns("go test -mod=mod -vet=off -count=1 -timeout 10m " + pkg), wt, 900)
                    fails = sorted(set(l.split()[2] for l in o.splitlines() if l.startswith("--- FAIL")))
                    runs.append({"rc": rc, "s": round(dt, 1), "failed": fails})
                    if rc == 0:
                        break
                suite.append({"pkg": pkg, "runs": runs, "passed": runs[-1]["rc"] == 0})
                ok &= runs[-1]["rc"] == 0
            res["suite_patched"] = suite
        res["valid"] = bool(ok)
        del_demo()
        # checks
        if props != "none":
            plist = [prop] if props is None else ([p["property_id"] for p in json.load(open("/verif/MANIFEST.json"))["checks"]] if props == "all" else props.split(","))
            # the checks read harness files and models from a snapshot of /verif taken now, so that editing
            # /verif while a long validation runs cannot break it half-way
            snap = os.path.join(out, "verif-snapshot")
            os.makedirs(snap, exist_ok=True)
            src = "/verif"
            if os.path.exists("/tmp/seed/FROZEN"):
                # first runs of a round are made against the machinery as it stood when the round's seeds were
                # requested (a frozen copy), so that strengthening done meanwhile does not count as "caught at once"
                src = open("/tmp/seed/FROZEN").read().strip()
            res["verif_used"] = src
            for sub in ("harness", "rt"):
                shutil.copytree(os.path.join(src, sub), os.path.join(snap, sub), dirs_exist_ok=True)
            shutil.copy(os.path.join(src, "KNOWN_FINDINGS.txt"), snap)
            gosym = os.path.join(snap, "gosym")
            shutil.copy(os.path.join(src, "bin/gosym"), gosym)
            env = dict(ENV, GOSYM_REPO=wt, GOSYM_OUT=out, GOSYM_VERIF=snap)
            det = {}
            for p in plist:
                rc, o, dt = sh(f"{gosym} run {p} --tier {tier} --workers 8", "/verif", 7200, env)
                lines = o.splitlines()
                det[p] = {"rc": rc, "s": round(dt, 1),
                          "violations": [l for l in lines if l.startswith("VIOLATION") or l.startswith("  harness=")][:8],
                          "inconclusive": [l[:300] for l in lines if l.startswith("INCONCLUSIVE") or l.startswith("UNCONFIRMED")][:6],
                          "known": len([l for l in lines if l.startswith("KNOWN-FINDING")])}
            res["checks"] = det
            res["detected_by"] = [p for p, d in det.items() if d["rc"] == 1 and d["violations"]]
        return res
    finally:
        if not keep:
            subprocess.run(["git", "-C", "/repo", "worktree", "remove", "--force", wt])
            shutil.rmtree(out, ignore_errors=True)
        json.dump(res, open(os.path.join(seed, "result.json"), "w"), indent=1)
        print(json.dumps(res, indent=1))


if __name__ == "__main__":
    main()
